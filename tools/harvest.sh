#!/bin/bash
# usage: tools/harvest.sh <id>   -- confirm a sub-agent's seeded change and store it under /verif/seeded/<id>/
# (patch applies to /repo HEAD, suite passes with it, demo fails with it and passes without it)
id=$1
wt=/tmp/wt_$id
hv=/tmp/hv_$id
export GOFLAGS=-mod=mod GOPROXY=off GOSUMDB=off GOTOOLCHAIN=local
out=/verif/seeded/$id
mkdir -p $out
cp $wt/_seed/* $out/ 2>/dev/null
# demo files placed by the agent (untracked, outside _seed)
demos=$(git -C $wt status --porcelain | grep '^??' | awk '{print $2}' | grep -v '^_seed' | grep -v '_PROMPT.md' | grep -v '_PROPERTY.json')
git -C /repo worktree remove --force $hv 2>/dev/null; rm -rf $hv
git -C /repo worktree add -q --detach $hv HEAD || exit 1
res="applies=no"
if git -C $hv apply --check $out/patch.diff 2>/dev/null; then
  res="applies=yes"
  for d in $demos; do mkdir -p $hv/$(dirname $d); cp $wt/$d $hv/$d; done
  # keep the demonstration next to the patch (path inside the repository encoded in the file name)
  for d in $demos; do case $d in *_test.go) cp $wt/$d $out/$(echo $d | tr '/' '+');; esac; done
  # demo without patch
  ( cd $hv && go test -vet=off -count=1 -run 'TestSeedDemo' ./... > $out/demo_without.log 2>&1 ); wo=$?
  git -C $hv apply $out/patch.diff
  ( cd $hv && go test -vet=off -count=1 -run 'TestSeedDemo' ./... > $out/demo_with.log 2>&1 ); wi=$?
  for d in $demos; do rm -f $hv/$d; done
  ( cd $hv && go test -vet=off -count=1 ./... > $out/suite_with.log 2>&1 ); su=$?
  res="$res demo_without_exit=$wo demo_with_exit=$wi suite_with_exit=$su demos=$(echo $demos | tr ' ' ',')"
fi
echo "$id $res" | tee $out/harvest.txt
git -C /repo worktree remove --force $hv 2>/dev/null; rm -rf $hv
