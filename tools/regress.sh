#!/bin/bash
# usage: tools/regress.sh   -- every registered quick check on the unchanged tree (evidence to a scratch dir); one line each
cd /verif
for p in $(python3 -c "import json;print(' '.join(c['property_id'] for c in json.load(open('MANIFEST.json'))['checks']))"); do
  GVC_EVIDENCE_DIR=/tmp/regress_ev ./check $p quick > /tmp/regress_$p.log 2>&1; ex=$?
  echo "$p exit=$ex $(tail -1 /tmp/regress_$p.log | cut -c1-120)"
done
