#!/bin/bash
# usage: tools/selftest.sh <property-id>
# Must-fail self-test of one check (thorough tier): every patch of the corpus that is expected to break <property-id>
#   - mutants/<name>.patch listed in mutants/expect.txt for this property (reverse patches of the fixed defects), and
#   - seeded/<seed>/patch.diff whose seeded/<seed>/meta.json names this check under "caught_by_checks"
# is applied to a scratch worktree of /repo HEAD (under $TMPDIR, removed afterwards; /repo itself is never touched), the
# live contract files are copied in, and the quick check is pointed at it with `gvc check -repo`.  A patch that does NOT
# make the check report a violation is a machinery hole.  Output: out/selftest_<id>.json (read by the thorough run).
id=$1
cd /verif
export GOFLAGS=-mod=mod GOPROXY=off GOSUMDB=off GOTOOLCHAIN=local GVC_NORETRY=1
wt=${TMPDIR:-/tmp}/selftest_wt.$$
mkdir -p out
git -C /repo worktree add -q --detach $wt HEAD || exit 2
trap 'git -C /repo worktree remove --force $wt 2>/dev/null; rm -rf $wt /tmp/selftest_ev.$$' EXIT
caught=(); missed=()
run_one() { # $1 = label, $2 = patch file, $3 = -R or empty
  git -C $wt checkout -q -- . ; git -C $wt clean -fdq
  if ! git -C $wt apply $3 $2 2>/dev/null; then return; fi   # patch no longer applies to HEAD: skipped
  for f in $(cd /repo && ls */zz_contracts_verif.go */*/zz_contracts_verif.go 2>/dev/null); do cp /repo/$f $wt/$f; done
  n=$(GVC_EVIDENCE_DIR=/tmp/selftest_ev.$$ bin/gvc check -prop $id -tier quick -repo $wt 2>&1 | grep -c '^VIOLATION')
  if [ "$n" -gt 0 ]; then caught+=("$1"); else missed+=("$1"); fi
}
while read pat rev checks; do
  case " $checks " in *" $id "*) ;; *) continue;; esac
  f=$(ls mutants/${pat}*.patch 2>/dev/null | head -1); [ -z "$f" ] && continue
  if [ "$rev" = R ]; then run_one "$pat" /verif/$f -R; else run_one "$pat" /verif/$f ""; fi
done < <(grep -v '^#' mutants/expect.txt)
for m in seeded/*/meta.json; do
  s=$(basename $(dirname $m))
  python3 - "$m" "$id" <<'E' || continue
import json,sys
m=json.load(open(sys.argv[1]))
sys.exit(0 if sys.argv[2] in m.get('caught_by_checks',[]) else 1)
E
  run_one "seed:$s" /verif/seeded/$s/patch.diff ""
done
python3 - "$id" "${caught[*]}" "${missed[*]}" <<'E'
import json,sys
json.dump({"property":sys.argv[1],"must_fail_caught":sys.argv[2].split(),"must_fail_missed":sys.argv[3].split()},open('/verif/out/selftest_%s.json'%sys.argv[1],'w'),indent=1)
print("selftest %s: %d caught, %d missed %s"%(sys.argv[1],len(sys.argv[2].split()),len(sys.argv[3].split()),sys.argv[3]))
E
