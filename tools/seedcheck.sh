#!/bin/bash
# usage: tools/seedcheck.sh <seed-id> <prop> [<prop>...]   -- apply seeded/<seed-id>/patch.diff to /repo, run the checks, undo
seed=$1; shift
cd /verif
if [ -n "$(git -C /repo status --porcelain --untracked-files=no)" ]; then echo "refusing: /repo has uncommitted changes"; exit 2; fi
git -C /repo apply /verif/seeded/$seed/patch.diff || { echo "patch does not apply"; exit 2; }
for p in "$@"; do
  GVC_EVIDENCE_DIR=/tmp/seed_ev ./check $p quick > /tmp/seedcheck_${seed}_$p.log 2>&1
  echo "seed=$seed check=$p exit=$? $(grep -c '^VIOLATION' /tmp/seedcheck_${seed}_$p.log) violations: $(grep '^FAILED-OBLIGATION' /tmp/seedcheck_${seed}_$p.log | head -3 | cut -c1-160 | tr '\n' ';')"
done
git -C /repo checkout -- .
git -C /repo status --short | grep -v '^??' | head -3
