#!/usr/bin/env python3
# Keeps MANIFEST.json's hooks.source_commits equal to the "verif:" commits of /repo and validates the file against the schema.
import json, subprocess, sys
m = json.load(open('/verif/MANIFEST.json'))
log = subprocess.check_output(['git', '-C', '/repo', 'log', '--reverse', '--format=%h %s']).decode().splitlines()
m['hooks']['source_commits'] = [l.split()[0] for l in log if l.split(' ', 1)[1].startswith('verif:')]
json.dump(m, open('/verif/MANIFEST.json', 'w'), indent=1)
try:
    import jsonschema
    jsonschema.validate(m, json.load(open('/root/.vp/MANIFEST.schema.json')))
    print('MANIFEST valid;', len(m['hooks']['source_commits']), 'hook commits;', len(m['checks']), 'checks;', len(m.get('not_applicable', [])), 'not applicable')
except ImportError:
    print('jsonschema not importable here; run with python3-vt')
