#!/usr/bin/env python3
# Writes/refreshes seeded/<id>/meta.json from NOTES.md, harvest.txt and the latest tools/seedmatrix.sh results
# (out/seedmatrix.txt: one line per (seed, check); the LAST line for a pair wins).
import json, os, re, glob
root = '/verif/seeded'
res = {}
if os.path.exists('/verif/out/seedmatrix.txt'):
    for l in open('/verif/out/seedmatrix.txt'):
        m = re.match(r'seed=(\S+) check=(\S+) exit=(\d+) violations=(\d+) first=(.*)', l.strip())
        if m:
            res[(m.group(1), m.group(2))] = (int(m.group(3)), int(m.group(4)), m.group(5))
for d in sorted(os.listdir(root)):
    p = os.path.join(root, d)
    if not os.path.isfile(os.path.join(p, 'patch.diff')):
        continue
    mp = os.path.join(p, 'meta.json')
    meta = json.load(open(mp)) if os.path.exists(mp) else {}
    notes = open(os.path.join(p, 'NOTES.md')).read() if os.path.exists(os.path.join(p, 'NOTES.md')) else ''
    meta.setdefault('breaks_property', d[:3])
    if 'change' not in meta:
        files = sorted(set(re.findall(r'^\+\+\+ b/(\S+)', open(os.path.join(p, 'patch.diff')).read(), re.M)))
        first = next((x.strip('# ').strip() for x in notes.splitlines() if x.strip() and not x.startswith('#')), '')
        meta['change'] = (', '.join(files) + ': ' + first)[:400]
    if 'needs_to_manifest' not in meta:
        m = re.search(r'(?is)(what (is )?need(ed|s)[^\n]*\n)(.*?)(\n## |\Z)', notes)
        meta['needs_to_manifest'] = re.sub(r'\s+', ' ', m.group(4)).strip()[:500] if m else 'see NOTES.md'
    if os.path.exists(os.path.join(p, 'harvest.txt')):
        meta['harvest_result'] = open(os.path.join(p, 'harvest.txt')).read().strip()
    meta.setdefault('confirmed_by', 'tools/harvest.sh %s (fresh worktree of /repo HEAD: patch applies; go test -vet=off -count=1 ./... passes with the patch; the demonstration test fails with it and passes without it)' % d)
    meta.setdefault('written_by', 'independent sub-agent given only the property text and a scratch worktree')
    demos = [f for f in os.listdir(p) if f.endswith('_test.go')]
    meta['demonstration'] = demos
    caught, missed, detail = [], [], []
    for (s, c), (ex, nv, first) in sorted(res.items()):
        if s != d:
            continue
        if nv > 0:
            caught.append(c)
            detail.append('%s: %s' % (c, first.split(' result=')[0].replace('FAILED-OBLIGATION ', '').replace('FAILED-BOUNDED ', 'bounded stand-in: ')[:200]))
        else:
            missed.append(c)
    if caught or missed:
        meta['caught_by_checks'] = caught
        meta['not_caught_by_checks'] = missed
        if caught:
            meta['caught_by'] = '; '.join(detail)
        elif not str(meta.get('caught_by', '')).startswith('obsolete'):
            meta['caught_by'] = 'not caught (see DESIGN.md 11.4 for why)'
    json.dump(meta, open(mp, 'w'), indent=1)
print('meta.json refreshed for', len([d for d in os.listdir(root)]), 'seeds')
