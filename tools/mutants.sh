#!/bin/bash
# Self-test of the machinery: every patch of the must-fail corpus must make the named check report a violation.
# usage: tools/mutants.sh            (runs all; exit 1 if a mutant is not caught = "machinery hole")
cd /verif
if [ -n "$(git -C /repo status --porcelain --untracked-files=no)" ]; then echo "refusing: /repo has uncommitted changes"; exit 2; fi
hole=0
grep -v '^#' mutants/expect.txt | while read pat rev checks; do
  f=$(ls mutants/${pat}*.patch 2>/dev/null | head -1)
  [ -z "$f" ] && { echo "missing patch $pat"; continue; }
  if [ "$rev" = R ]; then git -C /repo apply -R /verif/$f || { echo "cannot apply $f"; continue; }
  else git -C /repo apply /verif/$f || { echo "cannot apply $f"; continue; }; fi
  for c in $checks; do
    n=$(GVC_EVIDENCE_DIR=/tmp/seed_ev ./check $c quick 2>&1 | grep -c '^VIOLATION')
    if [ "$n" -gt 0 ]; then echo "caught   $pat by $c ($n violations)"; else echo "MACHINERY-HOLE $pat not caught by $c"; fi
  done
  git -C /repo checkout -- .
done
