#!/usr/bin/env python3
# Regenerates the table of DESIGN.md section 11.4 (between the SEEDTABLE markers) from seeded/*/meta.json.
import json, os, re
rows = []
for d in sorted(os.listdir('/verif/seeded')):
    mp = '/verif/seeded/%s/meta.json' % d
    if not os.path.exists(mp):
        continue
    m = json.load(open(mp))
    ch = re.sub(r'\s+', ' ', str(m.get('change', ''))).replace('|', '/')[:170]
    cb = re.sub(r'\s+', ' ', str(m.get('caught_by', '?'))).replace('|', '/')
    checks = m.get('caught_by_checks')
    if checks:
        cb = '**' + ', '.join(checks) + '**: ' + cb.split('; ')[0][:230]
    rows.append('| %s | %s | %s |' % (d, ch, cb[:330]))
tbl = '| seed | change (sub-agent, confirmed by tools/harvest.sh) | caught by (first failing obligation) |\n|------|------|------|\n' + '\n'.join(rows) + '\n'
p = '/verif/DESIGN.md'
s = open(p).read()
a = s.index('<!-- SEEDTABLE-BEGIN -->') + len('<!-- SEEDTABLE-BEGIN -->\n')
b = s.index('<!-- SEEDTABLE-END -->')
open(p, 'w').write(s[:a] + tbl + s[b:])
print(len(rows), 'rows')
