#!/bin/bash
# usage: tools/seedmatrix.sh [seed-id ...]   -- run the checks against every seeded change WITHOUT touching /repo:
# a scratch worktree of /repo HEAD (under $TMPDIR, removed at the end) gets one patch at a time and the checks are
# pointed at it with `gvc check -repo`.  Output: one line per (seed, check) in out/seedmatrix.txt.
# Which checks: the seed's own property (if registered) plus the checks named in seeded/<id>/checks (optional) plus C01.
cd /verif
export GOFLAGS=-mod=mod GOPROXY=off GOSUMDB=off GOTOOLCHAIN=local GVC_NORETRY=1
wt=${TMPDIR:-/tmp}/seedmatrix_wt.$$
mkdir -p out
git -C /repo worktree add -q --detach $wt HEAD || exit 2
trap 'git -C /repo worktree remove --force $wt 2>/dev/null; rm -rf $wt /tmp/seedmatrix_ev.$$' EXIT
seeds="$@"
[ -z "$seeds" ] && seeds=$(ls seeded)
registered=$(python3 -c "import json;print(' '.join(c['property_id'] for c in json.load(open('MANIFEST.json'))['checks']))")
for s in $seeds; do
  [ -f seeded/$s/patch.diff ] || continue
  git -C $wt checkout -q -- . ; git -C $wt clean -fdq
  if ! git -C $wt apply /verif/seeded/$s/patch.diff 2>/dev/null; then echo "seed=$s APPLY-FAILED" | tee -a out/seedmatrix.txt; continue; fi
  # the contract files (comment-only) are taken live from /repo so that they always match /verif/props
  for f in $(cd /repo && ls */zz_contracts_verif.go */*/zz_contracts_verif.go 2>/dev/null); do cp /repo/$f $wt/$f; done
  prop=$(echo $s | cut -c1-3)
  checks=""
  case " $registered " in *" $prop "*) checks="$prop";; esac
  [ -f seeded/$s/checks ] && checks="$checks $(cat seeded/$s/checks)"
  [ -n "$SEEDMATRIX_EXTRA" ] && checks="$checks $SEEDMATRIX_EXTRA"
  checks=$(echo $checks | tr ' ' '\n' | awk '!x[$0]++' | tr '\n' ' ')
  for c in $checks; do
    log=out/seedmatrix_${s}_$c.log
    GVC_EVIDENCE_DIR=/tmp/seedmatrix_ev.$$ bin/gvc check -prop $c -tier quick -repo $wt > $log 2>&1; ex=$?
    echo "seed=$s check=$c exit=$ex violations=$(grep -c '^VIOLATION' $log) first=$(grep '^FAILED-OBLIGATION' $log | head -2 | cut -c1-170 | tr '\n' ';')" | tee -a out/seedmatrix.txt
  done
done
