package main

import (
	"fmt"
	"go/ast"
	"go/token"
	"go/types"
	"sort"
	"strings"

	"golang.org/x/tools/go/ssa"
)

// ---------- obligations ----------

type Obl struct {
	Name   string // pkg.Func#kind:text
	Kind   string
	Text   string
	Pos    token.Position
	Upto   int    // number of g.lines visible
	Guard  string // reach condition
	Goal   string
	Values []string // terms to get-value on sat
	// result
	V Verdict
}

type unsupported struct{ why string }

func unsup(format string, a ...interface{}) {
	panic(unsupported{fmt.Sprintf(format, a...)})
}

// ---------- state ----------

type heapBase struct {
	id      int
	parents []heapParent // empty: unconstrained
}
type heapParent struct {
	guard string
	h     *Heap
}

type Heap struct {
	m    map[string]string
	base *heapBase
}

func (h *Heap) clone() *Heap {
	n := &Heap{m: make(map[string]string, len(h.m)), base: h.base}
	for k, v := range h.m {
		n.m[k] = v
	}
	return n
}

type State struct {
	reach string
	vars  map[*ssa.Alloc]*Val
	heap  *Heap
}

func (s *State) clone() *State {
	n := &State{reach: s.reach, vars: make(map[*ssa.Alloc]*Val, len(s.vars)), heap: s.heap.clone()}
	for k, v := range s.vars {
		n.vars[k] = v
	}
	return n
}

// ---------- generator ----------

type Gen struct {
	noHeap    int // >0 while evaluating a precondition that must not depend on the heap (funpre)
	P         *Program
	fn        *ssa.Function
	spec      *FuncSpec
	lines     []string
	declared  map[string]bool
	obls      []*Obl
	n         int
	vals      map[ssa.Value]*Val
	entry     *State
	params    map[string]*Val
	results   []string // names of results
	escaping  map[*ssa.Alloc]bool
	heapSort  map[string]string
	baseSyms  map[string]string
	nbase     int
	oblNames  map[string]int
	srcText   map[token.Pos]string
	retReach  []string
	nAssume   int
	loopOrd   map[*ssa.BasicBlock]int
	loops     map[*ssa.BasicBlock]*loopInfo
	strConsts map[string]string
	notes     []string
	havocked  []string
	localsByName map[string][]*ssa.Alloc
	cands     map[*ssa.BasicBlock][]*candInv // houdini candidates
	candMode  bool
	edgeCondCache map[[2]int]string
	out       map[*ssa.BasicBlock]*State
	usedSpecs map[string]bool
	knownNonNil map[string]bool
	checkedNonNil map[string][]*ssa.BasicBlock // blocks in which a nil obligation for this term was already emitted
	onStore   func(g *Gen, st *State, p *Val, pos token.Pos, text string)
	onAppend  func(g *Gen, st *State, s *Val, n string, pos token.Pos, text string)
	onCopy    func(g *Gen, st *State, d *Val, n string, pos token.Pos, text string)
	hooks     *Hooks
	curInstr  ssa.Instruction
	autoInvs  map[int][]Clause
	variantAtHead map[*ssa.BasicBlock]string
	entryByteMem string
	heapKind     map[string]Kind
	sliceKeep    map[ssa.Instruction]bool
	keySt        *State
	curLoop      *loopInfo
	callCount    map[string]int
	ownLocsDone  bool
	ownLocsCache []modLoc
	inFrameEval  bool
	joinParts    map[string][]string // join reach symbol -> incoming edge guards
}

type Hooks struct {
	sliceGlobals map[string]bool // package initialiser slicing: names of the globals of interest
	onStore  func(g *Gen, st *State, p *Val, pos token.Pos, text string)
	onAppend func(g *Gen, st *State, s *Val, n string, pos token.Pos, text string)
	onCopy   func(g *Gen, st *State, d *Val, n string, pos token.Pos, text string)
	onReturn func(g *Gen, st *State, env *Env, r *ssa.Return)
	onExtWrite func(g *Gen, st *State, s *Val, pos token.Pos, text string)
	autoInvs map[int][]Clause
	// paramsNonNil: the safety sweep's default type invariant of inputs - every pointer/interface parameter
	// (and receiver) of an in-repo function is non-nil unless its contract says `nilable p`; assumed at
	// entry, proved for every argument at every call site (static and interface) inside a swept function.
	paramsNonNil bool
}

type loopInfo struct {
	head    *ssa.BasicBlock
	blocks  map[*ssa.BasicBlock]bool
	backs   []*ssa.BasicBlock
	modVars map[*ssa.Alloc]bool
	modHeap map[string]bool
	modAll  bool
	ord     int
	rangeIdx []*ssa.Alloc
}

func (g *Gen) emit(s string) { g.lines = append(g.lines, s) }

func (g *Gen) fresh(prefix, srt string) string {
	g.n++
	name := sym(fmt.Sprintf("%s!%d", prefix, g.n))
	g.emit(fmt.Sprintf("(declare-fun %s () %s)", name, srt))
	return name
}

func (g *Gen) assume(guard, fact string) {
	if fact == "true" {
		return
	}
	g.emit("(assert " + implies(guard, fact) + ")")
}

func (g *Gen) declareOnce(name, decl string) {
	if g.declared[name] {
		return
	}
	g.declared[name] = true
	g.emit(decl)
}

// obligeSplit: like oblige, but when the reach condition is a join of a few paths the obligation is
// emitted once per incoming path (same name with #n): the solver no longer has to case-split itself.
func (g *Gen) obligeSplit(kind, text string, pos token.Pos, guard, goal string) {
	parts := g.expandJoin(guard, 2)
	if len(parts) <= 1 || len(parts) > 8 {
		g.oblige(kind, text, pos, guard, goal)
		return
	}
	n0 := len(g.lines)
	for _, p := range parts {
		g.oblige(kind, text, pos, p, goal)
		// do not let one case's assumed goal help the next: drop the assume emitted by oblige
		g.lines = g.lines[:n0]
	}
	g.assume(guard, goal)
}

func (g *Gen) expandJoin(guard string, depth int) []string {
	ps, ok := g.joinParts[guard]
	if !ok || depth == 0 {
		return []string{guard}
	}
	var out []string
	for _, p := range ps {
		// p is "(and R cond)" or a plain symbol; expand a leading join symbol one more level
		out = append(out, p)
	}
	return out
}

func (g *Gen) oblige(kind, text string, pos token.Pos, guard, goal string) *Obl {
	if goal == "true" || guard == "false" {
		return nil
	}
	base := g.fnName() + "#" + kind
	if text != "" {
		if r := []rune(text); len(r) > 96 {
			text = string(r[:96]) + "…"
		}
		base += ":" + text
	}
	g.oblNames[base]++
	name := base
	if c := g.oblNames[base]; c > 1 {
		name = fmt.Sprintf("%s#%d", base, c)
	}
	o := &Obl{Name: name, Kind: kind, Text: text, Upto: len(g.lines), Guard: guard, Goal: goal}
	if pos.IsValid() {
		o.Pos = g.P.fset.Position(pos)
	}
	g.obls = append(g.obls, o)
	// after an obligation, later code may assume it (standard assert-then-assume)
	g.assume(guard, goal)
	return o
}

func (g *Gen) fnName() string { return fnDisplayName(g.fn) }

func fnDisplayName(fn *ssa.Function) string {
	pkg := ""
	if fn.Pkg != nil {
		pkg = fn.Pkg.Pkg.Name()
	} else if fn.Parent() != nil && fn.Parent().Pkg != nil {
		pkg = fn.Parent().Pkg.Pkg.Name()
	}
	return pkg + "." + fnKey(fn)
}

// fnKey: Name | (*T).Name | T.Name | Outer$1
func fnKey(fn *ssa.Function) string {
	if fn.Parent() != nil {
		// closure: Outer$N
		return fnKey(fn.Parent()) + fn.Name()[strings.LastIndex(fn.Name(), "$"):]
	}
	if recv := fn.Signature.Recv(); recv != nil {
		t := recv.Type()
		if p, ok := t.(*types.Pointer); ok {
			if n, ok := p.Elem().(*types.Named); ok {
				return "(*" + n.Obj().Name() + ")." + fn.Name()
			}
		}
		if n, ok := t.(*types.Named); ok {
			return n.Obj().Name() + "." + fn.Name()
		}
	}
	return fn.Name()
}

// ---------- heap access ----------

func (g *Gen) heapSym(h *Heap, name string) string {
	if g.noHeap > 0 {
		unsup("a precondition used through funpre() reads the heap (%s)", name)
	}
	if s, ok := h.m[name]; ok {
		return s
	}
	key := fmt.Sprintf("%d/%s", h.base.id, name)
	if s, ok := g.baseSyms[key]; ok {
		return s
	}
	srt, ok := g.heapSort[name]
	if !ok {
		panic("heap sort unknown for " + name)
	}
	var s string
	if strings.HasPrefix(srt, "FUN ") {
		// ghost function: FUN (args) ret
		g.n++
		s = sym(fmt.Sprintf("%s@b%d!%d", name, h.base.id, g.n))
		sig := strings.TrimPrefix(srt, "FUN ")
		if len(h.base.parents) == 0 {
			g.emit(fmt.Sprintf("(declare-fun %s %s)", s, sig))
		} else {
			// define as ite over parents
			args, ret := splitFunSig(sig)
			var ps, as []string
			for i, a := range args {
				ps = append(ps, fmt.Sprintf("(x%d %s)", i, a))
				as = append(as, fmt.Sprintf("x%d", i))
			}
			if len(as) == 0 {
				body := ""
				for i := len(h.base.parents) - 1; i >= 0; i-- {
					p := h.base.parents[i]
					app := g.heapSym(p.h, name)
					if body == "" {
						body = app
					} else {
						body = ite(p.guard, app, body)
					}
				}
				g.emit(fmt.Sprintf("(define-fun %s (%s) %s %s)", s, strings.Join(ps, " "), ret, body))
			} else {
				// an uninterpreted symbol with one guarded defining equation per incoming edge, triggered on its own
				// applications (a define-fun with an ite body would be inlined into every pattern that mentions it)
				var eqs []string
				app := "(" + s + " " + strings.Join(as, " ") + ")"
				for _, p := range h.base.parents {
					papp := "(" + g.heapSym(p.h, name) + " " + strings.Join(as, " ") + ")"
					eqs = append(eqs, fmt.Sprintf("(assert (=> %s (forall (%s) (! (= %s %s) :pattern (%s)))))", p.guard, strings.Join(ps, " "), app, papp, app))
				}
				g.emit(fmt.Sprintf("(declare-fun %s %s)", s, sig))
				for _, e := range eqs {
					g.emit(e)
				}
			}
		}
		g.baseSyms[key] = s
		return s
	}
	g.n++
	s = sym(fmt.Sprintf("%s@b%d!%d", name, h.base.id, g.n))
	// resolve parents first (they may declare)
	var peqs []string
	for _, p := range h.base.parents {
		ps := g.heapSym(p.h, name)
		peqs = append(peqs, implies(p.guard, eq(s, ps)))
	}
	g.emit(fmt.Sprintf("(declare-fun %s () %s)", s, srt))
	for _, e := range peqs {
		g.emit("(assert " + e + ")")
	}
	g.baseSyms[key] = s
	if len(h.base.parents) == 0 {
		g.rangeAxiom(h, name, s)
	}
	return s
}

func splitFunSig(sig string) (args []string, ret string) {
	// "(Int Int) Int"
	i := strings.Index(sig, ")")
	a := strings.TrimSpace(sig[1:i])
	if a != "" {
		args = strings.Fields(a)
	}
	ret = strings.TrimSpace(sig[i+1:])
	return
}

// noteKind records that heap array `name` holds addresses (KPtr) ; "#arr" components hold array ids.
func (g *Gen) noteKind(name string, k Kind) {
	if k == KPtr || k == KIface {
		g.heapKind[name] = k
	}
}

// rangeAxiom: every value stored in a heap array of addresses / array ids is an allocated one
// (below the allocation counters of heap h).  Emitted when an unconstrained version is introduced.
func (g *Gen) rangeAxiom(h *Heap, name, s string) {
	srt := g.heapSort[name]
	var bound string
	switch {
	case strings.HasSuffix(name, "#arr"):
		if name == "abrk" {
			return
		}
		bound = g.abrk(&State{heap: h})
	case g.heapKind[name] == KPtr:
		bound = g.brk(&State{heap: h})
	case g.heapKind[name] == KIface:
		// an interface value stored in the heap refers (if it holds a pointer) to an allocated object
		bound = g.brk(&State{heap: h})
		switch srt {
		case "(Array Int Int)":
			g.emit(fmt.Sprintf("(assert (forall ((p Int)) (! (< (ifptr (select %s p)) %s) :pattern ((select %s p)))))", s, bound, s))
		case "(Array Int (Array Int Int))":
			g.emit(fmt.Sprintf("(assert (forall ((a Int) (i Int)) (! (< (ifptr (select (select %s a) i)) %s) :pattern ((select (select %s a) i)))))", s, bound, s))
		}
		return
	default:
		return
	}
	switch srt {
	case "(Array Int Int)":
		g.emit(fmt.Sprintf("(assert (forall ((p Int)) (! (< (select %s p) %s) :pattern ((select %s p)))))", s, bound, s))
	case "(Array Int (Array Int Int))":
		g.emit(fmt.Sprintf("(assert (forall ((a Int) (i Int)) (! (< (select (select %s a) i) %s) :pattern ((select (select %s a) i)))))", s, bound, s))
	}
}

func (g *Gen) setHeapSort(name, srt string) {
	if old, ok := g.heapSort[name]; ok && old != srt {
		panic(fmt.Sprintf("heap sort clash %s: %s vs %s", name, old, srt))
	}
	g.heapSort[name] = srt
}

// leaf components of a non-struct, non-array type
func leafComps(t types.Type) (suffix []string, kinds []Kind) {
	switch kindOf(t) {
	case KSlice:
		return []string{"#arr", "#off", "#len", "#cap"}, []Kind{KInt, KInt, KInt, KInt}
	case KString:
		return []string{"#arr", "#off", "#len"}, []Kind{KInt, KInt, KInt}
	case KStruct, KArray, KTuple:
		panic("leafComps on aggregate " + t.String())
	}
	return []string{""}, []Kind{kindOf(t)}
}

func (g *Gen) valFromLeaves(t types.Type, leaves []string) *Val {
	switch kindOf(t) {
	case KSlice:
		return &Val{K: KSlice, T: t, Arr: leaves[0], Off: leaves[1], Len: leaves[2], Cap: leaves[3]}
	case KString:
		return &Val{K: KString, T: t, Arr: leaves[0], Off: leaves[1], Len: leaves[2]}
	}
	return &Val{K: kindOf(t), T: t, S: leaves[0]}
}

func valLeaves(v *Val) []string {
	switch v.K {
	case KSlice:
		return []string{v.Arr, v.Off, v.Len, v.Cap}
	case KString:
		return []string{v.Arr, v.Off, v.Len}
	case KStruct, KTuple:
		var r []string
		for _, f := range v.Flds {
			r = append(r, valLeaves(f)...)
		}
		return r
	}
	return []string{v.S}
}

// loadLeafs: 1-D heap (address indexed)
func (g *Gen) loadAt(st *State, prefix string, t types.Type, addr string) *Val {
	sfx, kinds := leafComps(t)
	leaves := make([]string, len(sfx))
	for i, s := range sfx {
		name := prefix + s
		g.setHeapSort(name, "(Array Int "+sortOfKind(kinds[i])+")")
		g.noteKind(name, kinds[i])
		leaves[i] = sel(g.heapSym(st.heap, name), addr)
	}
	v := g.valFromLeaves(t, leaves)
	return v
}

func (g *Gen) storeAt(st *State, prefix string, t types.Type, addr string, v *Val) {
	sfx, kinds := leafComps(t)
	leaves := valLeaves(g.coerce(v, t))
	for i, s := range sfx {
		name := prefix + s
		srt := "(Array Int " + sortOfKind(kinds[i]) + ")"
		g.setHeapSort(name, srt)
		old := g.heapSym(st.heap, name)
		nw := g.fresh(name, srt)
		g.emit("(assert " + eq(nw, sto(old, addr, leaves[i])) + ")")
		st.heap.m[name] = nw
	}
}

// 2-D element memory
func (g *Gen) loadElem(st *State, elemT types.Type, arr, idx string) *Val {
	prefix := "M|" + typeName(elemT)
	sfx, kinds := leafComps(elemT)
	leaves := make([]string, len(sfx))
	for i, s := range sfx {
		name := prefix + s
		g.setHeapSort(name, "(Array Int (Array Int "+sortOfKind(kinds[i])+"))")
		g.noteKind(name, kinds[i])
		leaves[i] = sel(sel(g.heapSym(st.heap, name), arr), idx)
	}
	return g.valFromLeaves(elemT, leaves)
}

func (g *Gen) storeElem(st *State, elemT types.Type, arr, idx string, v *Val) {
	prefix := "M|" + typeName(elemT)
	sfx, kinds := leafComps(elemT)
	leaves := valLeaves(g.coerce(v, elemT))
	for i, s := range sfx {
		name := prefix + s
		srt := "(Array Int (Array Int " + sortOfKind(kinds[i]) + "))"
		g.setHeapSort(name, srt)
		old := g.heapSym(st.heap, name)
		nw := g.fresh(name, srt)
		g.emit("(assert " + eq(nw, sto(old, arr, sto(sel(old, arr), idx, leaves[i]))) + ")")
		st.heap.m[name] = nw
	}
}

func (g *Gen) memSym(st *State, elemT types.Type, comp string, k Kind) string {
	name := "M|" + typeName(elemT) + comp
	g.setHeapSort(name, "(Array Int (Array Int "+sortOfKind(k)+"))")
	return g.heapSym(st.heap, name)
}

func (g *Gen) setMem(st *State, elemT types.Type, comp string, k Kind) (old, nw string) {
	name := "M|" + typeName(elemT) + comp
	srt := "(Array Int (Array Int " + sortOfKind(k) + "))"
	g.setHeapSort(name, srt)
	old = g.heapSym(st.heap, name)
	nw = g.fresh(name, srt)
	st.heap.m[name] = nw
	return
}

// struct helpers
func structOf(t types.Type) *types.Struct {
	s, _ := t.Underlying().(*types.Struct)
	return s
}

func (g *Gen) subAddr(structT types.Type, field *types.Var, addr string) string {
	fn := sym("sub|" + typeName(structT) + "|" + field.Name())
	inv := sym("sub^|" + typeName(structT) + "|" + field.Name())
	if !g.declared[fn] {
		g.declared[fn] = true
		g.emit(fmt.Sprintf("(declare-fun %s (Int) Int)", fn))
		g.emit(fmt.Sprintf("(declare-fun %s (Int) Int)", inv))
		g.emit(fmt.Sprintf("(assert (forall ((p Int)) (! (and (< (%s p) 0) (= (%s (%s p)) p) (= (subtag (%s p)) %d) (= (objroot (%s p)) (objroot p)) (= (inarr (%s p)) (inarr p))) :pattern ((%s p)))))", fn, inv, fn, fn, g.P.tagOf("sub|"+typeName(structT)+"|"+field.Name()), fn, fn, fn))
	}
	return "(" + fn + " " + addr + ")"
}

func (g *Gen) arrOf(structT types.Type, field *types.Var, addr string) string {
	fn := sym("arrof|" + typeName(structT) + "|" + field.Name())
	inv := sym("arrof^|" + typeName(structT) + "|" + field.Name())
	if !g.declared[fn] {
		g.declared[fn] = true
		g.emit(fmt.Sprintf("(declare-fun %s (Int) Int)", fn))
		g.emit(fmt.Sprintf("(declare-fun %s (Int) Int)", inv))
		g.emit(fmt.Sprintf("(assert (forall ((p Int)) (! (and (< (%s p) 0) (= (%s (%s p)) p) (= (arrtag (%s p)) %d)) :pattern ((%s p)))))", fn, inv, fn, fn, g.P.tagOf("arrof|"+typeName(structT)+"|"+field.Name()), fn))
	}
	return "(" + fn + " " + addr + ")"
}

func (g *Gen) elemAddr(elemT types.Type, arr, idx string) string {
	fn := sym("ea|" + typeName(elemT))
	if !g.declared[fn] {
		g.declared[fn] = true
		g.emit(fmt.Sprintf("(declare-fun %s (Int Int) Int)", fn))
		g.emit(fmt.Sprintf("(declare-fun %s (Int) Int)", sym("ea^a|"+typeName(elemT))))
		g.emit(fmt.Sprintf("(declare-fun %s (Int) Int)", sym("ea^i|"+typeName(elemT))))
		g.emit(fmt.Sprintf("(assert (forall ((a Int) (i Int)) (! (and (< (%s a i) 0) (= (%s (%s a i)) a) (= (%s (%s a i)) i) (= (subtag (%s a i)) %d) (= (inarr (%s a i)) a) (= (objroot (%s a i)) 0)) :pattern ((%s a i)))))",
			fn, sym("ea^a|"+typeName(elemT)), fn, sym("ea^i|"+typeName(elemT)), fn, fn, g.P.tagOf("ea|"+typeName(elemT)), fn, fn, fn))
	}
	return "(" + fn + " " + arr + " " + idx + ")"
}

func (g *Gen) loadStruct(st *State, t types.Type, addr string) *Val {
	s := structOf(t)
	v := &Val{K: KStruct, T: t}
	for i := 0; i < s.NumFields(); i++ {
		f := s.Field(i)
		v.Flds = append(v.Flds, g.loadField(st, t, f, addr))
	}
	return v
}

func (g *Gen) loadField(st *State, structT types.Type, f *types.Var, addr string) *Val {
	ft := f.Type()
	switch kindOf(ft) {
	case KStruct:
		return g.loadStruct(st, ft, g.subAddr(structT, f, addr))
	case KArray:
		at := ft.Underlying().(*types.Array)
		if !isScalarKind(kindOf(at.Elem())) {
			unsup("array field of non-scalar elements: %s", ft)
		}
		return &Val{K: KArray, T: ft, S: sel(g.memSym(st, at.Elem(), "", kindOf(at.Elem())), g.arrOf(structT, f, addr))}
	}
	v := g.loadAt(st, "H|"+typeName(structT)+"|"+f.Name(), ft, addr)
	g.typeFacts(st, v, st.reach)
	return v
}

func (g *Gen) storeStruct(st *State, t types.Type, addr string, v *Val) {
	s := structOf(t)
	if v.K != KStruct || len(v.Flds) != s.NumFields() {
		unsup("storeStruct: shape mismatch for %s", t)
	}
	for i := 0; i < s.NumFields(); i++ {
		g.storeField(st, t, s.Field(i), addr, v.Flds[i])
	}
}

func (g *Gen) storeField(st *State, structT types.Type, f *types.Var, addr string, v *Val) {
	ft := f.Type()
	switch kindOf(ft) {
	case KStruct:
		g.storeStruct(st, ft, g.subAddr(structT, f, addr), v)
		return
	case KArray:
		at := ft.Underlying().(*types.Array)
		old, nw := g.setMem(st, at.Elem(), "", kindOf(at.Elem()))
		g.emit("(assert " + eq(nw, sto(old, g.arrOf(structT, f, addr), v.S)) + ")")
		return
	}
	g.storeAt(st, "H|"+typeName(structT)+"|"+f.Name(), ft, addr, v)
}

// cells
func cellName(t types.Type) string { return "H|cell|" + typeName(t) }

func (g *Gen) loadPointee(st *State, t types.Type, addr string) *Val {
	switch kindOf(t) {
	case KStruct:
		return g.loadStruct(st, t, addr)
	case KArray:
		unsup("load of array through plain pointer")
	}
	v := g.loadAt(st, cellName(t), t, addr)
	g.typeFacts(st, v, st.reach)
	return v
}

func (g *Gen) storePointee(st *State, t types.Type, addr string, v *Val) {
	switch kindOf(t) {
	case KStruct:
		g.storeStruct(st, t, addr, v)
		return
	case KArray:
		unsup("store of array through plain pointer")
	}
	g.storeAt(st, cellName(t), t, addr, v)
}

// ---------- values ----------

func (g *Gen) zeroVal(t types.Type) *Val {
	switch kindOf(t) {
	case KInt, KPtr, KIface, KOpaque:
		return &Val{K: kindOf(t), T: t, S: "0"}
	case KBool:
		return &Val{K: KBool, T: t, S: "false"}
	case KSlice:
		return &Val{K: KSlice, T: t, Arr: "0", Off: "0", Len: "0", Cap: "0"}
	case KString:
		return &Val{K: KString, T: t, Arr: "0", Off: "0", Len: "0"}
	case KStruct:
		s := structOf(t)
		v := &Val{K: KStruct, T: t}
		for i := 0; i < s.NumFields(); i++ {
			v.Flds = append(v.Flds, g.zeroVal(s.Field(i).Type()))
		}
		return v
	case KArray:
		at := t.Underlying().(*types.Array)
		ek := kindOf(at.Elem())
		if !isScalarKind(ek) {
			unsup("array value of non-scalar elements: %s", t)
		}
		z := "0"
		if ek == KBool {
			z = "false"
		}
		return &Val{K: KArray, T: t, S: "((as const (Array Int " + sortOfKind(ek) + ")) " + z + ")"}
	case KTuple:
		tu := t.(*types.Tuple)
		v := &Val{K: KTuple, T: t}
		for i := 0; i < tu.Len(); i++ {
			v.Flds = append(v.Flds, g.zeroVal(tu.At(i).Type()))
		}
		return v
	}
	panic("zeroVal")
}

func (g *Gen) freshVal(prefix string, t types.Type) *Val {
	switch kindOf(t) {
	case KInt, KPtr, KIface, KOpaque:
		return &Val{K: kindOf(t), T: t, S: g.fresh(prefix, "Int")}
	case KBool:
		return &Val{K: KBool, T: t, S: g.fresh(prefix, "Bool")}
	case KSlice:
		return &Val{K: KSlice, T: t, Arr: g.fresh(prefix+"#arr", "Int"), Off: g.fresh(prefix+"#off", "Int"), Len: g.fresh(prefix+"#len", "Int"), Cap: g.fresh(prefix+"#cap", "Int")}
	case KString:
		return &Val{K: KString, T: t, Arr: g.fresh(prefix+"#arr", "Int"), Off: g.fresh(prefix+"#off", "Int"), Len: g.fresh(prefix+"#len", "Int")}
	case KStruct:
		s := structOf(t)
		v := &Val{K: KStruct, T: t}
		for i := 0; i < s.NumFields(); i++ {
			v.Flds = append(v.Flds, g.freshVal(prefix+"."+s.Field(i).Name(), s.Field(i).Type()))
		}
		return v
	case KArray:
		at := t.Underlying().(*types.Array)
		ek := kindOf(at.Elem())
		if !isScalarKind(ek) {
			unsup("array value of non-scalar elements: %s", t)
		}
		return &Val{K: KArray, T: t, S: g.fresh(prefix, "(Array Int "+sortOfKind(ek)+")")}
	case KTuple:
		tu := t.(*types.Tuple)
		v := &Val{K: KTuple, T: t}
		for i := 0; i < tu.Len(); i++ {
			v.Flds = append(v.Flds, g.freshVal(fmt.Sprintf("%s.%d", prefix, i), tu.At(i).Type()))
		}
		return v
	}
	panic("freshVal")
}

// typeFacts assumes the language-level invariants of a value (ranges, slice shape, allocatedness).
func (g *Gen) typeFacts(st *State, v *Val, guard string) {
	switch v.K {
	case KInt:
		if v.T != nil {
			if lo, hi, ok := intRange(v.T); ok && !isConstTerm(v.S) {
				g.assume(guard, and("(<= "+lo+" "+v.S+")", "(<= "+v.S+" "+hi+")"))
			}
		}
	case KPtr:
		if !isConstTerm(v.S) {
			g.assume(guard, "(< "+v.S+" "+g.brk(st)+")")
		}
	case KIface:
		if !isConstTerm(v.S) {
			g.assume(guard, "(< (ifptr "+v.S+") "+g.brk(st)+")") // an interface value refers to an allocated object
		}
	case KSlice:
		if isConstTerm(v.Len) && isConstTerm(v.Arr) {
			return
		}
		nonneg := ""
		if v.T != nil && !isByteElem(elemTypeOf(v.T)) {
			nonneg = "(<= 0 " + v.Arr + ")" // only byte slices can alias string-constant memory (negative ids)
		}
		g.assume(guard, and(nonneg, "(<= 0 "+v.Off+")", "(<= 0 "+v.Len+")", "(<= "+v.Len+" "+v.Cap+")", "(<= "+v.Cap+" 4611686018427387904)", "(< "+v.Arr+" "+g.abrk(st)+")",
			implies(eq(v.Arr, "0"), and(eq(v.Cap, "0"), eq(v.Off, "0")))))
	case KString:
		if isConstTerm(v.Len) {
			return
		}
		nonneg := ""
		if v.T != nil && !isByteElem(elemTypeOf(v.T)) {
			nonneg = "(<= 0 " + v.Arr + ")" // only byte slices can alias string-constant memory (negative ids)
		}
		g.assume(guard, and(nonneg, "(<= 0 "+v.Off+")", "(<= 0 "+v.Len+")", "(<= "+v.Len+" 4611686018427387904)", "(< "+v.Arr+" "+g.abrk(st)+")"))
	case KStruct, KTuple:
		for _, f := range v.Flds {
			g.typeFacts(st, f, guard)
		}
	}
}

func isConstTerm(s string) bool {
	if s == "" {
		return true
	}
	c := s[0]
	return (c >= '0' && c <= '9') || strings.HasPrefix(s, "(- ") && len(s) > 3 && s[3] >= '0' && s[3] <= '9' || s == "true" || s == "false"
}

func (g *Gen) brk(st *State) string {
	g.setHeapSort("brk", "Int")
	return g.heapSym(st.heap, "brk")
}
func (g *Gen) abrk(st *State) string {
	g.setHeapSort("abrk", "Int")
	return g.heapSym(st.heap, "abrk")
}

func (g *Gen) newAddr(st *State, prefix string) string {
	a := g.fresh(prefix, "Int")
	old := g.brk(st)
	g.emit("(assert (and (> " + a + " 0) (>= " + a + " " + old + ")))")
	nb := g.fresh("brk", "Int")
	g.emit("(assert (= " + nb + " (+ " + a + " 1)))")
	st.heap.m["brk"] = nb
	return a
}

func (g *Gen) newArr(st *State, prefix string) string {
	a := g.fresh(prefix, "Int")
	old := g.abrk(st)
	g.emit("(assert (and (> " + a + " 0) (>= " + a + " " + old + ")))")
	nb := g.fresh("abrk", "Int")
	g.emit("(assert (= " + nb + " (+ " + a + " 1)))")
	st.heap.m["abrk"] = nb
	return a
}

// coerce adapts v to type t where only naming differs.
func (g *Gen) coerce(v *Val, t types.Type) *Val {
	k := kindOf(t)
	if v.K == k {
		return v
	}
	if isScalarKind(v.K) && isScalarKind(k) && sortOfKind(v.K) == sortOfKind(k) {
		c := *v
		c.K = k
		c.T = t
		return &c
	}
	unsup("coerce %v to %s", v, t)
	return nil
}

func (g *Gen) eqVal(a, b *Val) string {
	if a.K == KStruct && b.K == KStruct {
		var cs []string
		for i := range a.Flds {
			cs = append(cs, g.eqVal(a.Flds[i], b.Flds[i]))
		}
		return and(cs...)
	}
	if a.K == KSlice && b.K == KSlice {
		return and(eq(a.Arr, b.Arr), eq(a.Off, b.Off), eq(a.Len, b.Len))
	}
	if a.K == KString && b.K == KString {
		return g.strEq(a, b)
	}
	if isScalarKind(a.K) && isScalarKind(b.K) {
		return eq(a.S, b.S)
	}
	if a.K == KArray && b.K == KArray {
		return eq(a.S, b.S)
	}
	unsup("eqVal on kinds %d %d", a.K, b.K)
	return ""
}

// strKey: the map-key / comparison identity of a string or byte slice: a function of the CONTENTS
// of its backing array (in the state being evaluated), offset and length.
func (g *Gen) strKey(v *Val) string {
	st := g.keySt
	if st == nil {
		st = g.entry
	}
	m := g.memSym(st, types.Typ[types.Uint8], "", KInt)
	return "(strkey (select " + m + " " + v.Arr + ") " + v.Off + " " + v.Len + ")"
}

func (g *Gen) strEq(a, b *Val) string {
	if isConstTerm(b.Len) && b.Len == "0" {
		return eq(a.Len, "0")
	}
	if isConstTerm(a.Len) && a.Len == "0" {
		return eq(b.Len, "0")
	}
	return and(eq(a.Len, b.Len), eq(g.strKey(a), g.strKey(b)))
}

// freshEqual: make a fresh copy of v, equal to v under guard (for joins).
func (g *Gen) mergeVals(t types.Type, prefix string, guards []string, vs []*Val) *Val {
	// all identical?
	same := true
	for i := 1; i < len(vs); i++ {
		if !sameVal(vs[0], vs[i]) {
			same = false
			break
		}
	}
	if same {
		return vs[0]
	}
	// pointer-like special kinds cannot be merged symbolically
	for _, v := range vs {
		switch v.K {
		case KFieldPtr, KElemPtr, KArrPtr, KVarPtr:
			unsup("merge of pointer-into-aggregate values")
		}
	}
	if t == nil {
		t = vs[0].T
	}
	return g.mergeShape(vs[0], prefix, guards, vs)
}

func (g *Gen) mergeShape(shape *Val, prefix string, guards []string, vs []*Val) *Val {
	switch shape.K {
	case KStruct, KTuple:
		r := &Val{K: shape.K, T: shape.T}
		for i := range shape.Flds {
			var sub []*Val
			for _, v := range vs {
				sub = append(sub, v.Flds[i])
			}
			same := true
			for j := 1; j < len(sub); j++ {
				if !sameVal(sub[0], sub[j]) {
					same = false
				}
			}
			if same {
				r.Flds = append(r.Flds, sub[0])
			} else {
				r.Flds = append(r.Flds, g.mergeShape(shape.Flds[i], fmt.Sprintf("%s.%d", prefix, i), guards, sub))
			}
		}
		return r
	}
	n := len(valLeaves(shape))
	leaves := make([]string, n)
	all := make([][]string, len(vs))
	for i, v := range vs {
		all[i] = valLeaves(v)
	}
	sorts := leafSorts(shape)
	for j := 0; j < n; j++ {
		same := true
		for i := 1; i < len(vs); i++ {
			if all[i][j] != all[0][j] {
				same = false
			}
		}
		if same {
			leaves[j] = all[0][j]
			continue
		}
		c := g.fresh(prefix, sorts[j])
		for i := range vs {
			g.emit("(assert " + implies(guards[i], eq(c, all[i][j])) + ")")
		}
		leaves[j] = c
	}
	return rebuild(shape, leaves)
}

func leafSorts(v *Val) []string {
	switch v.K {
	case KSlice:
		return []string{"Int", "Int", "Int", "Int"}
	case KString:
		return []string{"Int", "Int", "Int"}
	case KBool:
		return []string{"Bool"}
	case KArray:
		at := v.T.Underlying().(*types.Array)
		return []string{"(Array Int " + sortOfKind(kindOf(at.Elem())) + ")"}
	}
	return []string{"Int"}
}

func rebuild(shape *Val, leaves []string) *Val {
	c := *shape
	switch shape.K {
	case KSlice:
		c.Arr, c.Off, c.Len, c.Cap = leaves[0], leaves[1], leaves[2], leaves[3]
	case KString:
		c.Arr, c.Off, c.Len = leaves[0], leaves[1], leaves[2]
	default:
		c.S = leaves[0]
	}
	return &c
}

func sameVal(a, b *Val) bool {
	if a == b {
		return true
	}
	if a.K != b.K {
		return false
	}
	switch a.K {
	case KStruct, KTuple:
		if len(a.Flds) != len(b.Flds) {
			return false
		}
		for i := range a.Flds {
			if !sameVal(a.Flds[i], b.Flds[i]) {
				return false
			}
		}
		return true
	case KSlice:
		return a.Arr == b.Arr && a.Off == b.Off && a.Len == b.Len && a.Cap == b.Cap
	case KString:
		return a.Arr == b.Arr && a.Off == b.Off && a.Len == b.Len
	case KFieldPtr:
		return a.Base == b.Base && a.HName == b.HName
	case KElemPtr:
		return a.Arr == b.Arr && a.Idx == b.Idx && a.HName == b.HName
	case KArrPtr:
		return a.Arr == b.Arr && a.HName == b.HName
	case KVarPtr:
		if a.Alloc != b.Alloc || a.VIdx != b.VIdx || len(a.Path) != len(b.Path) {
			return false
		}
		for i := range a.Path {
			if a.Path[i] != b.Path[i] {
				return false
			}
		}
		return true
	}
	return a.S == b.S
}

// ---------- string constants ----------

func (g *Gen) strConst(s string) *Val {
	t := types.Typ[types.String]
	if s == "" {
		return &Val{K: KString, T: t, Arr: "0", Off: "0", Len: "0"}
	}
	id := g.P.strID(s)
	arr := smtInt(-int64(1000000 + id))
	if _, ok := g.strConsts[s]; !ok {
		g.strConsts[s] = arr
		// string constants live in byte memory at negative array ids; no store can reach them (slices have
		// arr >= 0) and every havoc of byte memory preserves negative ids (applyModSet).
		if len(s) <= 64 {
			var cs []string
			for i := 0; i < len(s); i++ {
				cs = append(cs, eq(sel(sel(g.entryByteMem, arr), fmt.Sprintf("%d", i)), fmt.Sprintf("%d", s[i])))
			}
			g.emit("(assert " + and(cs...) + ")")
		}
	}
	return &Val{K: KString, T: t, Arr: arr, Off: "0", Len: fmt.Sprintf("%d", len(s))}
}

// byteAt reads byte i (absolute index) of a slice/string backing array in state st.
// String constants (negative ids <= -1000000) read from the rigid function strc.
func (g *Gen) byteAt(st *State, elemT types.Type, arr, idx string) string {
	m := g.memSym(st, elemT, "", kindOf(elemT))
	return sel(sel(m, arr), idx)
}

// ---------- source text of expressions ----------

func (g *Gen) buildSrcText() {
	g.srcText = map[token.Pos]string{}
	syn := g.fn.Syntax()
	if syn == nil {
		return
	}
	file := g.P.fset.File(syn.Pos())
	if file == nil {
		return
	}
	src := g.P.fileSrc(file.Name())
	if src == nil {
		return
	}
	text := func(n ast.Node) string {
		a, b := file.Offset(n.Pos()), file.Offset(n.End())
		if a < 0 || b > len(src) || a > b {
			return ""
		}
		s := string(src[a:b])
		s = strings.Join(strings.Fields(s), " ")
		if len(s) > 60 {
			s = s[:60] + "…"
		}
		return s
	}
	ast.Inspect(syn, func(n ast.Node) bool {
		switch x := n.(type) {
		case *ast.IndexExpr:
			g.srcText[x.Lbrack] = text(x)
		case *ast.SliceExpr:
			g.srcText[x.Lbrack] = text(x)
		case *ast.CallExpr:
			if id, ok := x.Fun.(*ast.Ident); ok && (id.Name == "append" || id.Name == "copy") {
				g.srcText[x.Lparen] = text(x)
			} else {
				g.srcText[x.Lparen] = text(x.Fun)
			}
		case *ast.TypeAssertExpr:
			g.srcText[x.Lparen] = text(x)
		case *ast.SelectorExpr:
			g.srcText[x.Sel.Pos()] = text(x)
		case *ast.BinaryExpr:
			g.srcText[x.OpPos] = text(x)
		case *ast.StarExpr:
			g.srcText[x.Star] = text(x)
		}
		return true
	})
}

func (g *Gen) textAt(p token.Pos) string {
	if s, ok := g.srcText[p]; ok {
		return s
	}
	return ""
}

// ---------- sorting helper ----------

func sortedKeys(m map[string]bool) []string {
	var ks []string
	for k := range m {
		ks = append(ks, k)
	}
	sort.Strings(ks)
	return ks
}
