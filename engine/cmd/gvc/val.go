package main

import (
	"fmt"
	"go/types"
	"regexp"
	"strings"

	"golang.org/x/tools/go/ssa"
)

// Kind of a symbolic value.
type Kind int

const (
	KInt    Kind = iota // all integer types, runes, bytes, pointers-as-addresses excluded
	KBool               // bool
	KPtr                // address of a struct object or a cell (Int), nil = 0
	KIface              // interface value id (Int), nil = 0
	KOpaque             // map / func / chan / float / anything else: opaque Int id
	KSlice              // (arr, off, len, cap)
	KString             // (arr, off, len)
	KStruct             // fields
	KTuple              // results
	KArray              // array VALUE: S is an (Array Int <leaf>) term; only scalar elements supported
	KFieldPtr           // pointer to a non-struct field: Base address + heap array prefix
	KElemPtr            // pointer to a scalar/slice element of an array: Arr, Idx
	KArrPtr             // pointer to an array object living in slice memory: Arr (id), N
	KVarPtr             // pointer into a local variable (non-escaping Alloc)
)

type Val struct {
	K    Kind
	T    types.Type
	S    string // scalar term (KInt,KBool,KPtr,KIface,KOpaque,KArray inner array)
	Arr  string
	Off  string
	Len  string
	Cap  string
	Flds []*Val
	// pointers
	Base  string     // KFieldPtr: address of containing struct
	HName string     // KFieldPtr: heap array base name "H|T|f"
	Idx   string     // KElemPtr: absolute index within arr
	N     int64      // KArrPtr: array length
	Alloc *ssa.Alloc // KVarPtr
	Path  []int      // KVarPtr: field path
	VIdx  string     // KVarPtr: element index into array at end of path ("" if none)
}

func (v *Val) String() string {
	switch v.K {
	case KInt, KBool, KPtr, KIface, KOpaque, KArray:
		return v.S
	case KSlice:
		return fmt.Sprintf("slice(%s,%s,%s,%s)", v.Arr, v.Off, v.Len, v.Cap)
	case KString:
		return fmt.Sprintf("string(%s,%s,%s)", v.Arr, v.Off, v.Len)
	case KStruct, KTuple:
		var s []string
		for _, f := range v.Flds {
			s = append(s, f.String())
		}
		return "{" + strings.Join(s, ",") + "}"
	}
	return fmt.Sprintf("val(kind=%d)", v.K)
}

func isScalarKind(k Kind) bool {
	return k == KInt || k == KBool || k == KPtr || k == KIface || k == KOpaque
}

func sortOfKind(k Kind) string {
	if k == KBool {
		return "Bool"
	}
	return "Int"
}

// kindOf maps a Go type to the value kind.
func kindOf(t types.Type) Kind {
	switch u := t.Underlying().(type) {
	case *types.Basic:
		info := u.Info()
		switch {
		case info&types.IsBoolean != 0:
			return KBool
		case info&types.IsInteger != 0:
			return KInt
		case info&types.IsString != 0:
			return KString
		case u.Kind() == types.UnsafePointer:
			return KOpaque
		case u.Kind() == types.UntypedNil:
			return KPtr
		}
		return KOpaque // floats, complex
	case *types.Pointer:
		return KPtr
	case *types.Slice:
		return KSlice
	case *types.Struct:
		return KStruct
	case *types.Interface:
		return KIface
	case *types.Tuple:
		return KTuple
	case *types.Array:
		return KArray
	}
	return KOpaque
}

// intRange returns lo,hi (as SMT literals) for narrow integer types; ok=false for int/int64/uint64 (treated mathematically).
func intRange(t types.Type) (lo, hi string, ok bool) {
	b, isB := t.Underlying().(*types.Basic)
	if !isB {
		return "", "", false
	}
	switch b.Kind() {
	case types.Uint8:
		return "0", "255", true
	case types.Int8:
		return "(- 128)", "127", true
	case types.Uint16:
		return "0", "65535", true
	case types.Int16:
		return "(- 32768)", "32767", true
	case types.Uint32:
		return "0", "4294967295", true
	case types.Int32:
		return "(- 2147483648)", "2147483647", true
	case types.Uint, types.Uint64, types.Uintptr:
		return "0", "18446744073709551615", true
	case types.Int, types.Int64:
		return "(- 9223372036854775808)", "9223372036854775807", true
	}
	return "", "", false
}

func isUnsigned(t types.Type) bool {
	b, ok := t.Underlying().(*types.Basic)
	return ok && b.Info()&types.IsUnsigned != 0
}

func intBits(t types.Type) int {
	b, ok := t.Underlying().(*types.Basic)
	if !ok {
		return 64
	}
	switch b.Kind() {
	case types.Uint8, types.Int8:
		return 8
	case types.Uint16, types.Int16:
		return 16
	case types.Uint32, types.Int32:
		return 32
	}
	return 64
}

// typeName gives a stable short name for heap-array naming.
func typeName(t types.Type) string {
	s := types.TypeString(t, func(p *types.Package) string {
		return p.Name()
	})
	if strings.Contains(s, "byte") || strings.Contains(s, "rune") {
		s = aliasRe.ReplaceAllStringFunc(s, func(m string) string {
			if m == "byte" {
				return "uint8"
			}
			return "int32"
		})
	}
	return s
}

// byte and rune are aliases; heap arrays are named after the canonical type.
var aliasRe = regexp.MustCompile(`\b(byte|rune)\b`)

func smtInt(n int64) string {
	if n < 0 {
		return fmt.Sprintf("(- %d)", -n)
	}
	return fmt.Sprintf("%d", n)
}

func and(xs ...string) string {
	var ys []string
	for _, x := range xs {
		if x == "true" || x == "" {
			continue
		}
		if x == "false" {
			return "false"
		}
		ys = append(ys, x)
	}
	switch len(ys) {
	case 0:
		return "true"
	case 1:
		return ys[0]
	}
	return "(and " + strings.Join(ys, " ") + ")"
}

func or(xs ...string) string {
	var ys []string
	for _, x := range xs {
		if x == "false" || x == "" {
			continue
		}
		if x == "true" {
			return "true"
		}
		ys = append(ys, x)
	}
	switch len(ys) {
	case 0:
		return "false"
	case 1:
		return ys[0]
	}
	return "(or " + strings.Join(ys, " ") + ")"
}

func not(x string) string {
	switch x {
	case "true":
		return "false"
	case "false":
		return "true"
	}
	if strings.HasPrefix(x, "(not ") && strings.HasSuffix(x, ")") && balanced(x[5:len(x)-1]) {
		return x[5 : len(x)-1]
	}
	return "(not " + x + ")"
}

func balanced(s string) bool {
	d := 0
	inq := false
	for i := 0; i < len(s); i++ {
		switch s[i] {
		case '|':
			inq = !inq
		case '(':
			if !inq {
				d++
			}
		case ')':
			if !inq {
				d--
				if d < 0 {
					return false
				}
			}
		case ' ':
			if d == 0 && !inq {
				return false
			}
		}
	}
	return d == 0
}

func implies(a, b string) string {
	if a == "true" {
		return b
	}
	if b == "true" || a == "false" {
		return "true"
	}
	return "(=> " + a + " " + b + ")"
}

func eq(a, b string) string {
	if a == b {
		return "true"
	}
	return "(= " + a + " " + b + ")"
}

func ite(c, a, b string) string {
	if c == "true" {
		return a
	}
	if c == "false" {
		return b
	}
	if a == b {
		return a
	}
	return "(ite " + c + " " + a + " " + b + ")"
}

func add(a, b string) string {
	if b == "0" {
		return a
	}
	if a == "0" {
		return b
	}
	// off + (j - off) = j  (quantifiers over slices are phrased over the absolute index j)
	if strings.HasPrefix(b, "(- ") && strings.HasSuffix(b, " "+a+")") {
		if x := b[3 : len(b)-len(a)-2]; balanced(x) {
			return x
		}
	}
	return "(+ " + a + " " + b + ")"
}

func sub(a, b string) string {
	if b == "0" {
		return a
	}
	return "(- " + a + " " + b + ")"
}

func sel(a, i string) string { return "(select " + a + " " + i + ")" }
func sto(a, i, v string) string {
	return "(store " + a + " " + i + " " + v + ")"
}

// sym quotes a symbol for SMT-LIB.
func sym(s string) string {
	if strings.ContainsAny(s, " ()|") {
		s = strings.NewReplacer(" ", "_", "(", "<", ")", ">", "|", "!").Replace(s)
	}
	return "|" + s + "|"
}
