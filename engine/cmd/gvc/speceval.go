package main

import (
	"fmt"
	"go/constant"
	"go/token"
	"go/types"
	"strings"

	"golang.org/x/tools/go/ssa"
)

type Env struct {
	g      *Gen
	cur    *State
	old    *State
	vars   map[string]*Val
	pkg    string // package path for resolving names
	locals bool   // may reference function locals by name
	depth  int
	atEntry bool  // evaluating the verified function's own requires (ownership is granted, not derived)
	now    *State // the state outside the innermost old(...)
	qvars  map[string]bool
	noSplitTrig bool
	atPos  token.Pos // evaluating at this source position: same-named locals resolve to the nearest one declared before it
	loop   *loopInfo // evaluating an invariant of this loop: same-named locals resolve to the one the loop assigns
	funArgs map[string]*ssa.Function // at a call site: the static functions passed for the callee's purefunc parameters
}

func (g *Gen) newEnv(cur, old *State, pkg string) *Env {
	return &Env{g: g, cur: cur, old: old, vars: map[string]*Val{}, pkg: pkg}
}

func (e *Env) with(cur *State) *Env {
	c := *e
	if c.now == nil {
		c.now = e.cur
	}
	c.cur = cur
	return &c
}

func specErr(x *SExpr, format string, a ...interface{}) {
	panic(unsupported{fmt.Sprintf("spec %s: %s: %s", x.Pos, x.String(), fmt.Sprintf(format, a...))})
}

func (g *Gen) evalBool(env *Env, x *SExpr) string {
	v := g.eval(env, x)
	if v.K != KBool {
		specErr(x, "expected bool")
	}
	return v.S
}

func boolVal(s string) *Val { return &Val{K: KBool, T: types.Typ[types.Bool], S: s} }
func intVal(s string) *Val  { return &Val{K: KInt, T: types.Typ[types.Int], S: s} }

// autoLoad turns a pointer-to-struct produced by field selection into the struct value when a value is needed.
func (g *Gen) autoLoad(env *Env, v *Val) *Val {
	if v.K == KPtr && v.T != nil {
		if structOf(deref(v.T)) != nil && strings.HasPrefix(v.S, "(|sub!") {
			return g.loadStruct(env.cur, deref(v.T), v.S)
		}
	}
	return v
}

func (g *Gen) eval(env *Env, x *SExpr) *Val {
	prevK := g.keySt
	g.keySt = env.cur
	defer func() { g.keySt = prevK }()
	switch x.Op {
	case "int", "char":
		return intVal(smtInt(x.Int))
	case "bool":
		if x.Int != 0 {
			return boolVal("true")
		}
		return boolVal("false")
	case "nil":
		return &Val{K: KPtr, S: "0"}
	case "str":
		return g.strConst(x.Str)
	case "ident":
		return g.evalIdent(env, x)
	case "un":
		a := g.eval(env, x.Args[0])
		if x.Name == "!" {
			return boolVal(not(a.S))
		}
		return intVal("(- " + a.S + ")")
	case "bin":
		return g.evalBin(env, x)
	case "ite":
		c := g.evalBool(env, x.Args[0])
		a := g.eval(env, x.Args[1])
		b := g.eval(env, x.Args[2])
		return g.iteVal(c, a, b)
	case "old":
		return g.eval(env.with(env.old), x.Args[0])
	case "deref":
		p := g.eval(env, x.Args[0])
		if p.K != KPtr || p.T == nil {
			specErr(x, "dereference of non-pointer")
		}
		return g.loadPointee(env.cur, deref(p.T), p.S)
	case "sel":
		return g.evalSel(env, x)
	case "idx":
		return g.evalIdx(env, x)
	case "slice":
		b := g.eval(env, x.Args[0])
		lo, hi := "0", b.Len
		if x.Args[1] != nil {
			lo = g.eval(env, x.Args[1]).S
		}
		if x.Args[2] != nil {
			hi = g.eval(env, x.Args[2]).S
		}
		switch b.K {
		case KSlice:
			return &Val{K: KSlice, T: b.T, Arr: b.Arr, Off: add(b.Off, lo), Len: sub(hi, lo), Cap: sub(b.Cap, lo)}
		case KString:
			return &Val{K: KString, T: b.T, Arr: b.Arr, Off: add(b.Off, lo), Len: sub(hi, lo)}
		}
		specErr(x, "slice of non-slice")
	case "forall", "exists":
		return g.evalQuant(env, x)
	case "call":
		return g.evalCall(env, x)
	}
	specErr(x, "unknown expression form")
	return nil
}

func (g *Gen) evalIdent(env *Env, x *SExpr) *Val {
	if v, ok := env.vars[x.Name]; ok && (env.qvars[x.Name] || !env.locals || len(g.localsByName[x.Name]) == 0 || x.Name == "result") {
		return v
	}
	if env.locals {
		_, isParam := env.vars[x.Name]
		// inside old(...): a parameter denotes its entry value; any other local keeps its current value
		// (only the heap is the old one)
		vs := env.cur
		if env.now != nil {
			vs = env.now
		}
		if !(isParam && (env.now != nil || env.cur == g.entry)) {
			if as := g.localsByName[x.Name]; len(as) > 0 {
				a := as[0]
				if env.atPos.IsValid() && len(as) > 1 {
					best := token.NoPos
					for _, c := range as {
						if c.Pos() <= env.atPos && c.Pos() > best {
							best = c.Pos()
							a = c
						}
					}
				}
				if env.loop != nil && len(as) > 1 {
					found := false
					for _, c := range as {
						if env.loop.modVars[c] {
							a = c
							found = true
							break
						}
					}
					if !found {
						// several locals share the name and the loop assigns none of them: the one in scope is
						// the latest declaration before the loop
						lp := token.Pos(1 << 40)
						for b := range env.loop.blocks {
							for _, in := range b.Instrs {
								if p := in.Pos(); p.IsValid() && p < lp {
									lp = p
								}
							}
						}
						best := token.NoPos
						for _, c := range as {
							if c.Pos() <= lp && c.Pos() > best {
								best = c.Pos()
								a = c
							}
						}
					}
				}
				if g.escaping[a] {
					p := g.vals[a]
					if p == nil {
						specErr(x, "local %s not yet allocated", x.Name)
					}
					return g.load(vs, p, 0, "")
				}
				if v, ok := vs.vars[a]; ok {
					return v
				}
				return g.zeroVal(deref(a.Type()))
			}
		}
	}
	// package-level object
	if pkg := g.P.typesPkg(env.pkg); pkg != nil {
		if obj := pkg.Scope().Lookup(x.Name); obj != nil {
			switch o := obj.(type) {
			case *types.Const:
				return g.constToVal(o.Val(), o.Type())
			case *types.Var:
				if sp := g.P.spkg[pkg.Path()]; sp != nil {
					if gl, ok := sp.Members[x.Name].(*ssa.Global); ok {
						p := g.globalPtr(gl)
						if p.K == KArrPtr {
							return p
						}
						return g.load(env.cur, p, 0, "")
					}
				}
			}
		}
	}
	if v, ok := env.vars[x.Name]; ok {
		return v
	}
	specErr(x, "unknown identifier %q", x.Name)
	return nil
}

func (g *Gen) constToVal(c constant.Value, t types.Type) *Val {
	switch c.Kind() {
	case constant.Int:
		i, _ := constant.Int64Val(c)
		return &Val{K: KInt, T: t, S: smtInt(i)}
	case constant.Bool:
		if constant.BoolVal(c) {
			return boolVal("true")
		}
		return boolVal("false")
	case constant.String:
		return g.strConst(constant.StringVal(c))
	}
	unsup("constant kind %v in spec", c.Kind())
	return nil
}

func (g *Gen) evalBin(env *Env, x *SExpr) *Val {
	op := x.Name
	switch op {
	case "&&":
		return boolVal(and(g.evalBool(env, x.Args[0]), g.evalBool(env, x.Args[1])))
	case "||":
		return boolVal(or(g.evalBool(env, x.Args[0]), g.evalBool(env, x.Args[1])))
	case "==>":
		return boolVal(implies(g.evalBool(env, x.Args[0]), g.evalBool(env, x.Args[1])))
	case "<==>":
		return boolVal(eq(g.evalBool(env, x.Args[0]), g.evalBool(env, x.Args[1])))
	}
	a := g.eval(env, x.Args[0])
	b := g.eval(env, x.Args[1])
	switch op {
	case "==", "!=":
		if !(isScalarKind(a.K) && isScalarKind(b.K)) || (strings.HasPrefix(a.S, "(|sub!") && strings.HasPrefix(b.S, "(|sub!") && a.T != nil && b.T != nil) {
			// struct-valued operands (a selected embedded struct is denoted by its address): compare by value
			a, b = g.autoLoad(env, a), g.autoLoad(env, b)
		}
		if a.K == KSlice && b.K == KPtr && b.S == "0" || b.K == KSlice && a.K == KPtr && a.S == "0" {
			sl := a
			if b.K == KSlice {
				sl = b
			}
			e := eq(sl.Arr, "0")
			if op == "!=" {
				e = not(e)
			}
			return boolVal(e)
		}
		if a.K == KStruct && b.K == KPtr || a.K == KPtr && b.K == KStruct {
			specErr(x, "comparing struct with pointer")
		}
		if isScalarKind(a.K) && isScalarKind(b.K) && a.K != b.K && (a.K == KBool || b.K == KBool) {
			specErr(x, "comparing bool with non-bool")
		}
		var e string
		if isScalarKind(a.K) && isScalarKind(b.K) {
			e = eq(a.S, b.S)
		} else {
			e = g.eqVal(a, b)
		}
		if op == "!=" {
			e = not(e)
		}
		return boolVal(e)
	case "<", "<=", ">", ">=":
		return boolVal("(" + op + " " + a.S + " " + b.S + ")")
	case "+":
		return intVal(add(a.S, b.S))
	case "-":
		return intVal(sub(a.S, b.S))
	case "*":
		return intVal("(* " + a.S + " " + b.S + ")")
	case "/":
		return intVal("(div " + a.S + " " + b.S + ")")
	case "%":
		return intVal("(mod " + a.S + " " + b.S + ")")
	case "&":
		return intVal("(band " + a.S + " " + b.S + ")")
	case "|":
		return intVal("(bor " + a.S + " " + b.S + ")")
	}
	specErr(x, "operator %s", op)
	return nil
}

func (g *Gen) evalSel(env *Env, x *SExpr) *Val {
	// pkg.Name : a constant or variable of another package
	if id := x.Args[0]; id.Op == "ident" {
		_, isVar := env.vars[id.Name]
		if !isVar && len(g.localsByName[id.Name]) == 0 {
			if tp := g.P.tpkgByName[id.Name]; tp != nil {
				if self := g.P.tpkgByPath[env.pkg]; self == nil || self.Scope().Lookup(id.Name) == nil {
					n := *env
					n.pkg = tp.Path()
					return g.evalIdent(&n, &SExpr{Op: "ident", Name: x.Name, Pos: x.Pos})
				}
			}
		}
	}
	b := g.eval(env, x.Args[0])
	switch b.K {
	case KStruct:
		if v, ok := structValField(b, x.Name); ok {
			return v
		}
		specErr(x, "no field %s", x.Name)
	case KTuple:
		var i int
		if _, err := fmt.Sscanf(x.Name, "r%d", &i); err == nil && i < len(b.Flds) {
			return b.Flds[i]
		}
	case KPtr:
		if b.T == nil {
			specErr(x, "untyped pointer")
		}
		stT := deref(b.T)
		f, ok := fieldByName(stT, x.Name)
		if !ok {
			specErr(x, "no field %s in %s", x.Name, stT)
		}
		addr := f.addr(g, b.S)
		switch kindOf(f.v.Type()) {
		case KStruct:
			return &Val{K: KPtr, T: types.NewPointer(f.v.Type()), S: g.subAddr(f.owner, f.v, addr)}
		case KArray:
			at := f.v.Type().Underlying().(*types.Array)
			return &Val{K: KArrPtr, T: types.NewPointer(f.v.Type()), Arr: g.arrOf(f.owner, f.v, addr), N: at.Len()}
		}
		return g.loadAtNoFacts(env.cur, "H|"+typeName(f.owner)+"|"+f.v.Name(), f.v.Type(), addr)
	}
	specErr(x, "selection on value kind %d", b.K)
	return nil
}

func (g *Gen) loadAtNoFacts(st *State, prefix string, t types.Type, addr string) *Val {
	v := g.loadAt(st, prefix, t, addr)
	// language-level facts (0 <= len <= cap, ...) for loads whose address mentions no bound variable
	if !strings.Contains(addr, "q!") && !strings.Contains(addr, "a!") && !strings.Contains(addr, "u!") && (v.K == KSlice || v.K == KString) {
		g.typeFacts(st, v, "true")
	}
	return v
}

func structValField(v *Val, name string) (*Val, bool) {
	s := structOf(v.T)
	if s == nil {
		return nil, false
	}
	for i := 0; i < s.NumFields(); i++ {
		if s.Field(i).Name() == name {
			return v.Flds[i], true
		}
	}
	for i := 0; i < s.NumFields(); i++ {
		if s.Field(i).Embedded() && v.Flds[i].K == KStruct {
			if r, ok := structValField(v.Flds[i], name); ok {
				return r, true
			}
		}
	}
	return nil, false
}

func (g *Gen) evalIdx(env *Env, x *SExpr) *Val {
	b := g.eval(env, x.Args[0])
	i := g.eval(env, x.Args[1])
	switch b.K {
	case KSlice:
		et := b.T.Underlying().(*types.Slice).Elem()
		abs := add(b.Off, i.S)
		if kindOf(et) == KStruct {
			return &Val{K: KPtr, T: types.NewPointer(et), S: g.elemAddr(et, b.Arr, abs)}
		}
		if kindOf(et) == KInt && intBits(et) == 8 {
			return &Val{K: KInt, T: et, S: g.byteAt(env.cur, et, b.Arr, abs)}
		}
		return g.loadElem(env.cur, et, b.Arr, abs)
	case KString:
		bt := types.Typ[types.Uint8]
		return &Val{K: KInt, T: bt, S: g.byteAt(env.cur, bt, b.Arr, add(b.Off, i.S))}
	case KArray:
		at := b.T.Underlying().(*types.Array)
		return &Val{K: kindOf(at.Elem()), T: at.Elem(), S: sel(b.S, i.S)}
	case KArrPtr:
		at := deref(b.T).Underlying().(*types.Array)
		if b.Arr == "tbl" {
			return &Val{K: kindOf(at.Elem()), T: at.Elem(), S: "(" + b.HName + " " + i.S + ")"}
		}
		if kindOf(at.Elem()) == KStruct {
			return &Val{K: KPtr, T: types.NewPointer(at.Elem()), S: g.elemAddr(at.Elem(), b.Arr, i.S)}
		}
		return g.loadElem(env.cur, at.Elem(), b.Arr, i.S)
	}
	specErr(x, "index on kind %d", b.K)
	return nil
}

// findIndexTrigger looks for a sub-expression S[k] (k the bound variable, S not mentioning k).
func findIndexTrigger(e *SExpr, k string) *SExpr {
	if e == nil {
		return nil
	}
	if e.Op == "idx" && e.Args[1].Op == "ident" && e.Args[1].Name == k && !mentions(e.Args[0], k) {
		return e
	}
	if e.Op == "forall" || e.Op == "exists" {
		for _, v := range e.Vars {
			if v.Name == k {
				return nil
			}
		}
	}
	for _, a := range e.Args {
		if r := findIndexTrigger(a, k); r != nil {
			return r
		}
	}
	return nil
}

// allIndexTriggers collects the distinct sub-expressions S[k] (k the bound variable, S free of k).
func allIndexTriggers(e *SExpr, k string, out *[]*SExpr) {
	if e == nil {
		return
	}
	if e.Op == "idx" && e.Args[1].Op == "ident" && e.Args[1].Name == k && !mentions(e.Args[0], k) {
		txt := e.Args[0].String()
		for _, o := range *out {
			if o.Args[0].String() == txt {
				return
			}
		}
		*out = append(*out, e)
		return
	}
	if e.Op == "forall" || e.Op == "exists" {
		for _, v := range e.Vars {
			if v.Name == k {
				return
			}
		}
	}
	for _, a := range e.Args {
		allIndexTriggers(a, k, out)
	}
}

func mentions(e *SExpr, k string) bool {
	if e == nil {
		return false
	}
	if e.Op == "ident" && e.Name == k {
		return true
	}
	for _, a := range e.Args {
		if mentions(a, k) {
			return true
		}
	}
	return false
}

func (g *Gen) evalQuant(env *Env, x *SExpr) *Val {
	// a body that indexes several slices by the bound variable gets one copy per slice, each phrased
	// over that slice's absolute index (so each copy can be triggered by a term of "its" array)
	if len(x.Vars) == 1 && x.Vars[0].Type == "int" && len(x.Trig) == 0 && !env.noSplitTrig {
		var trs []*SExpr
		allIndexTriggers(x.Args[0], x.Vars[0].Name, &trs)
		if len(trs) > 1 && len(trs) <= 3 {
			var parts []string
			for _, tr := range trs {
				c := *x
				c.Trig = [][]*SExpr{{tr}}
				e2 := *env
				e2.noSplitTrig = true
				parts = append(parts, g.evalQuant(&e2, &c).S)
			}
			if x.Op == "forall" {
				return boolVal(and(parts...))
			}
			return boolVal(parts[0])
		}
	}
	n := *env
	n.vars = map[string]*Val{}
	for k, v := range env.vars {
		n.vars[k] = v
	}
	n.qvars = map[string]bool{}
	for k := range env.qvars {
		n.qvars[k] = true
	}
	for _, v := range x.Vars {
		n.qvars[v.Name] = true
	}
	var decls []string
	var guards []string
	var pats []string
	// Single int variable indexing a slice: quantify over the ABSOLUTE index j = off + k, so that the
	// trigger is the plain term M[arr][j] (matches any index term; no arithmetic inside the pattern).
	absDone := false
	if len(x.Vars) == 1 && (x.Vars[0].Type == "int") {
		var tr *SExpr
		if len(x.Trig) == 1 && len(x.Trig[0]) == 1 {
			tr = findIndexTrigger(x.Trig[0][0], x.Vars[0].Name)
			if tr != x.Trig[0][0] {
				tr = nil
			}
		} else if len(x.Trig) == 0 {
			tr = findIndexTrigger(x.Args[0], x.Vars[0].Name)
		}
		if tr != nil {
			var sv *Val
			func() {
				defer func() {
					if r := recover(); r != nil {
						sv = nil
					}
				}()
				sv = g.eval(env, tr.Args[0])
			}()
			if sv != nil && (sv.K == KSlice || sv.K == KString) {
				et := elemTypeOf(sv.T)
				if et != nil && kindOf(et) == KStruct {
					g.n++
					bn := fmt.Sprintf("q!%s!%d", x.Vars[0].Name, g.n)
					kv := bn
					if sv.Off != "0" {
						kv = "(- " + bn + " " + sv.Off + ")"
					}
					n.vars[x.Vars[0].Name] = &Val{K: KInt, T: types.Typ[types.Int], S: kv}
					decls = append(decls, fmt.Sprintf("(%s Int)", bn))
					pats = append(pats, ":pattern ("+g.elemAddr(et, sv.Arr, bn)+")")
					absDone = true
				} else if et != nil && kindOf(et) != KStruct && kindOf(et) != KArray {
					g.n++
					bn := fmt.Sprintf("q!%s!%d", x.Vars[0].Name, g.n)
					kv := bn
					if sv.Off != "0" {
						kv = "(- " + bn + " " + sv.Off + ")"
					}
					n.vars[x.Vars[0].Name] = &Val{K: KInt, T: types.Typ[types.Int], S: kv}
					decls = append(decls, fmt.Sprintf("(%s Int)", bn))
					sfx, kinds := leafComps(et)
					m := g.memSym(env.cur, et, sfx[0], kinds[0])
					pats = append(pats, ":pattern ((select (select "+m+" "+sv.Arr+") "+bn+"))")
					absDone = true
				}
			}
		}
	}
	if !absDone {
		for _, v := range x.Vars {
			t := g.P.resolveType(v.Type, env.pkg)
			if t == nil {
				specErr(x, "unknown type %s", v.Type)
			}
			g.n++
			bn := fmt.Sprintf("q!%s!%d", v.Name, g.n)
			k := kindOf(t)
			if !isScalarKind(k) {
				specErr(x, "quantified variable of non-scalar type %s", v.Type)
			}
			n.vars[v.Name] = &Val{K: k, T: t, S: bn}
			decls = append(decls, fmt.Sprintf("(%s %s)", bn, sortOfKind(k)))
			if lo, hi, ok := intRange(t); ok && intBits(t) < 64 {
				guards = append(guards, "(<= "+lo+" "+bn+")", "(<= "+bn+" "+hi+")")
			}
		}
	}
	body := g.evalBool(&n, x.Args[0])
	if !absDone {
		for _, tr := range x.Trig {
			var ts []string
			for _, t := range tr {
				tv := g.eval(&n, t)
				term := tv.S
				if tv.K == KSlice || tv.K == KString {
					term = tv.Arr // a slice-valued trigger stands for the term that reads its backing array
				}
				if term != "" {
					ts = append(ts, term)
				}
			}
			if len(ts) == 0 {
				continue
			}
			pats = append(pats, ":pattern ("+strings.Join(ts, " ")+")")
		}
	}
	if x.Op == "forall" {
		body = implies(and(guards...), body)
	} else {
		body = and(append(guards, body)...)
	}
	if len(pats) > 0 {
		body = "(! " + body + " " + strings.Join(pats, " ") + ")"
	}
	return boolVal("(" + x.Op + " (" + strings.Join(decls, " ") + ") " + body + ")")
}

func (g *Gen) evalCall(env *Env, x *SExpr) *Val {
	if i := strings.Index(x.Name, "."); i > 0 {
		// pkg.name(...) : spec functions and macros share one global namespace
		rest := x.Name[i+1:]
		if g.P.specFuns[rest] != nil || g.P.macros[rest] != nil {
			c := *x
			c.Name = rest
			x = &c
		}
	}
	switch x.Name {
	case "len":
		a := g.eval(env, x.Args[0])
		switch a.K {
		case KSlice, KString:
			return intVal(a.Len)
		case KArrPtr:
			return intVal(fmt.Sprintf("%d", a.N))
		}
		specErr(x, "len of kind %d", a.K)
	case "cap":
		a := g.eval(env, x.Args[0])
		return intVal(a.Cap)
	case "arrof":
		a := g.eval(env, x.Args[0])
		return intVal(a.Arr)
	case "offof":
		a := g.eval(env, x.Args[0])
		return intVal(a.Off)
	case "int", "byte", "rune", "addr":
		a := g.eval(env, x.Args[0])
		return intVal(a.S)
	case "typeis":
		// typeis(x, "pkg.T") / typeis(x, "*pkg.T")
		a := g.eval(env, x.Args[0])
		if x.Args[1].Op != "str" {
			specErr(x, "typeis needs a string literal type")
		}
		t := g.P.resolveType(x.Args[1].Str, env.pkg)
		if t == nil {
			specErr(x, "unknown type %s", x.Args[1].Str)
		}
		if kindOf(t) == KPtr {
			_ = g.mkifSym(t) // boxing axioms of the type
		}
		return boolVal(and(not(eq(a.S, "0")), eq("(iftype "+a.S+")", fmt.Sprintf("%d", g.P.tagOf("type|"+typeName(t))))))
	case "ifptr":
		a := g.eval(env, x.Args[0])
		r := &Val{K: KPtr, S: "(ifptr " + a.S + ")"}
		if len(x.Args) > 1 && x.Args[1].Op == "str" {
			r.T = g.P.resolveType(x.Args[1].Str, env.pkg)
		}
		return r
	case "funres":
		// funres(p, args...): the result of the `detfunc` parameter p on these arguments
		if x.Args[0].Op != "ident" {
			specErr(x, "funres takes a parameter name")
		}
		var as []*Val
		for _, a := range x.Args[1:] {
			as = append(as, g.eval(env, a))
		}
		return intVal(g.detResTerm(x.Args[0].Name, as, KInt))
	case "funpre":
		// funpre(p, args...): the precondition of the function passed as purefunc parameter p holds for args.
		// Inside the function that owns p it is an uninterpreted predicate (every call of p owes it); at a call site
		// that passes a known function F for p it is F's own requires clause (which must not read the heap, because
		// the callee relies on it at later points of its execution).
		if x.Args[0].Op != "ident" {
			specErr(x, "funpre takes a parameter name")
		}
		var as []*Val
		for _, a := range x.Args[1:] {
			as = append(as, g.eval(env, a))
		}
		if f := env.funArgs[x.Args[0].Name]; f != nil {
			return boolVal(g.funPreOf(env, f, as))
		}
		return boolVal(g.funPreTerm(x.Args[0].Name, as))
	case "ifslice":
		// ifslice(v, "[]T"): the slice boxed in interface value v
		a := g.eval(env, x.Args[0])
		t := g.P.resolveType(x.Args[1].Str, env.pkg)
		if t == nil || kindOf(t) != KSlice {
			specErr(x, "ifslice needs a slice type, got %s", x.Args[1].Str)
		}
		return unboxSlice(a.S, t)
	case "decathead":
		// decathead(n): the value loop n's decreases term had at its head (for inner loops that must keep it)
		if x.Args[0].Op != "int" {
			specErr(x, "decathead takes a loop ordinal")
		}
		for h, li := range g.loops {
			if fmt.Sprint(li.ord) == fmt.Sprint(x.Args[0].Int) {
				if c, ok := g.variantAtHead[h]; ok {
					return intVal(c)
				}
			}
		}
		specErr(x, "decathead: loop %v has no variant in scope", x.Args[0].Int)
	case "ptr":
		// ptr(e, "*pkg.T"): type an address term
		a := g.eval(env, x.Args[0])
		t := g.P.resolveType(x.Args[1].Str, env.pkg)
		if t == nil {
			specErr(x, "unknown type %s", x.Args[1].Str)
		}
		return &Val{K: KPtr, T: t, S: a.S}
	case "fresh":
		a := g.eval(env, x.Args[0])
		switch a.K {
		case KSlice:
			return boolVal(or(eq(a.Arr, "0"), "(>= "+a.Arr+" "+g.abrk(env.old)+")"))
		case KPtr, KOpaque:
			return boolVal("(>= " + a.S + " " + g.brk(env.old) + ")")
		}
		specErr(x, "fresh of kind %d", a.K)
	case "owned":
		a := g.eval(env, x.Args[0])
		if a.K != KSlice {
			specErr(x, "owned() of non-slice")
		}
		return boolVal(g.ownedTerm(a.Arr, env.atEntry))
	case "now":
		if env.now == nil {
			specErr(x, "now() outside old()")
		}
		n := *env
		n.cur = env.now
		n.now = nil
		return g.eval(&n, x.Args[0])
	case "elem":
		// elem(a, j, "pkg.T"): pointer to element j (absolute index) of struct array a
		a := g.eval(env, x.Args[0])
		j := g.eval(env, x.Args[1])
		t := g.P.resolveType(x.Args[2].Str, env.pkg)
		if t == nil || structOf(t) == nil {
			specErr(x, "elem needs a struct type")
		}
		return &Val{K: KPtr, T: types.NewPointer(t), S: g.elemAddr(t, a.S, j.S)}
	case "allocbound":
		// allocbound(): every object allocated so far has an address below this bound
		return intVal(g.brk(env.cur))
	case "asnode":
		// asnode(p): the interface value holding pointer p (of p's static pointer type)
		a := g.eval(env, x.Args[0])
		if a.K != KPtr || a.T == nil {
			specErr(x, "asnode() needs a typed pointer")
		}
		r := &Val{K: KIface, S: "(" + g.mkifSym(a.T) + " " + a.S + ")"}
		g.nodeBaseFact(a.T, a.S, r.S)
		return r
	case "local":
		// local(name): the value of the function's local variable at the point of evaluation (returns, hints)
		if x.Args[0].Op != "ident" {
			specErr(x, "local() takes a variable name")
		}
		as := g.localsByName[x.Args[0].Name]
		if len(as) == 0 {
			specErr(x, "no local named %s", x.Args[0].Name)
		}
		a := as[len(as)-1]
		vs := env.cur
		if env.now != nil {
			vs = env.now
		}
		if g.escaping[a] {
			return g.load(vs, g.vals[a], 0, "")
		}
		if v, ok := vs.vars[a]; ok {
			return v
		}
		return g.zeroVal(deref(a.Type()))
	case "membyte":
		a := g.eval(env, x.Args[0])
		i := g.eval(env, x.Args[1])
		return &Val{K: KInt, T: types.Typ[types.Uint8], S: g.byteAt(env.cur, types.Typ[types.Uint8], a.S, i.S)}
	case "sameslice":
		a := g.eval(env, x.Args[0])
		b := g.eval(env, x.Args[1])
		return boolVal(and(eq(a.Arr, b.Arr), eq(a.Off, b.Off), eq(a.Len, b.Len), eq(a.Cap, b.Cap)))
	case "mapHas", "mapGet":
		m := g.eval(env, x.Args[0])
		k := g.eval(env, x.Args[1])
		if m.T == nil {
			specErr(x, "untyped map")
		}
		has, vp, vt := g.mapArrays(env.cur, m.T)
		kt := mapKeyTerm(g, k)
		if x.Name == "mapHas" {
			return boolVal(and(not(eq(m.S, "0")), sel(sel(g.heapSym(env.cur.heap, has), m.S), kt)))
		}
		return g.mapLoadValNoFacts(env.cur, vp, vt, m.S, kt)
	case "mapHasKey":
		m := g.eval(env, x.Args[0])
		k := g.eval(env, x.Args[1])
		if m.T == nil {
			specErr(x, "untyped map")
		}
		has, _, _ := g.mapArrays(env.cur, m.T)
		return boolVal(and(not(eq(m.S, "0")), sel(sel(g.heapSym(env.cur.heap, has), m.S), k.S)))
	case "strkey":
		a := g.eval(env, x.Args[0])
		return intVal(g.strKey(a))
	}
	if m := g.P.macros[x.Name]; m != nil {
		if len(m.Params) != len(x.Args) {
			specErr(x, "macro arity")
		}
		if env.depth > 40 {
			specErr(x, "macro recursion")
		}
		sub := map[string]*SExpr{}
		for i, p := range m.Params {
			sub[p] = x.Args[i]
		}
		n := *env
		n.depth++
		return g.eval(&n, substExpr(m.Body, sub))
	}
	if gf := g.P.ghostVar(x.Name); gf != nil {
		name := "ghost|" + gf.Name
		g.setHeapSort(name, g.P.ghostSort(gf))
		s := g.heapSym(env.cur.heap, name)
		var as []string
		for _, a := range x.Args {
			as = append(as, g.eval(env, a).S)
		}
		rt := g.P.resolveType(gf.Ret, gf.Pkg)
		app := s
		if len(as) > 0 {
			app = "(" + s + " " + strings.Join(as, " ") + ")"
		}
		return &Val{K: kindOf(rt), T: rt, S: app}
	}
	if sf := g.P.specFuns[x.Name]; sf != nil {
		g.declareSpecFun(sf)
		if len(sf.Params) != len(x.Args) {
			specErr(x, "arity of %s", x.Name)
		}
		var as []string
		for _, a := range x.Args {
			v := g.eval(env, a)
			if !isScalarKind(v.K) {
				specErr(x, "non-scalar argument to spec function")
			}
			as = append(as, v.S)
		}
		rt := g.P.resolveType(sf.Ret, sf.Pkg)
		app := sym("sf|" + sf.Name)
		if len(as) > 0 {
			app = "(" + app + " " + strings.Join(as, " ") + ")"
		}
		return &Val{K: kindOf(rt), T: rt, S: app}
	}
	specErr(x, "unknown function %q", x.Name)
	return nil
}

func (g *Gen) mapLoadValNoFacts(st *State, prefix string, vt types.Type, m, k string) *Val {
	sfx, kinds := leafComps(vt)
	leaves := make([]string, len(sfx))
	for i, s := range sfx {
		name := prefix + s
		g.setHeapSort(name, "(Array Int (Array Int "+sortOfKind(kinds[i])+"))")
		leaves[i] = sel(sel(g.heapSym(st.heap, name), m), k)
	}
	return g.valFromLeaves(vt, leaves)
}

// declareSpecFun emits define-fun / declare-fun for a rigid spec function (and its dependencies).
func (g *Gen) declareSpecFun(sf *SpecFun) {
	name := sym("sf|" + sf.Name)
	if g.declared[name] {
		return
	}
	g.declared[name] = true
	var ps []string
	env := g.newEnv(g.entry, g.entry, sf.Pkg)
	for _, p := range sf.Params {
		t := g.P.resolveType(p.Type, sf.Pkg)
		if t == nil || !isScalarKind(kindOf(t)) {
			unsup("spec function %s: parameter type %s", sf.Name, p.Type)
		}
		bn := "a!" + p.Name
		env.vars[p.Name] = &Val{K: kindOf(t), T: t, S: bn}
		ps = append(ps, fmt.Sprintf("(%s %s)", bn, sortOfKind(kindOf(t))))
	}
	rt := g.P.resolveType(sf.Ret, sf.Pkg)
	if rt == nil {
		unsup("spec function %s: return type %s", sf.Name, sf.Ret)
	}
	if sf.Body == nil {
		var ss []string
		for _, p := range sf.Params {
			ss = append(ss, sortOfKind(kindOf(g.P.resolveType(p.Type, sf.Pkg))))
		}
		g.emit(fmt.Sprintf("(declare-fun %s (%s) %s)", name, strings.Join(ss, " "), sortOfKind(kindOf(rt))))
		return
	}
	body := g.eval(env, sf.Body) // dependencies get declared first (emitted before)
	g.emit(fmt.Sprintf("(define-fun %s (%s) %s %s)", name, strings.Join(ps, " "), sortOfKind(kindOf(rt)), body.S))
}

// splitGoal splits a goal into independently provable conjuncts.
func splitGoal(e *SExpr) []*SExpr {
	switch {
	case e.Op == "bin" && e.Name == "&&":
		return append(splitGoal(e.Args[0]), splitGoal(e.Args[1])...)
	case e.Op == "bin" && e.Name == "==>":
		var r []*SExpr
		for _, c := range splitGoal(e.Args[1]) {
			r = append(r, &SExpr{Op: "bin", Name: "==>", Args: []*SExpr{e.Args[0], c}, Pos: e.Pos})
		}
		return r
	case e.Op == "forall":
		parts := splitGoal(e.Args[0])
		if len(parts) == 1 {
			return []*SExpr{e}
		}
		var r []*SExpr
		for _, c := range parts {
			n := *e
			n.Args = []*SExpr{c}
			r = append(r, &n)
		}
		return r
	}
	return []*SExpr{e}
}
