package main

import (
	"fmt"
	"go/constant"
	"go/types"
	"os"
	"path/filepath"
	"sort"
	"strconv"
	"strings"

	"golang.org/x/tools/go/ssa"
)

func init() {
	scans["node-accessors"] = scanNodeAccessors
	scans["link-field-writers"] = scanLinkFieldWriters
	scans["write-results-unused"] = scanWriteResultsUnused
	scans["convert-shape"] = scanConvertShape
	scans["sort-by-less"] = scanSortByLess
	scans["literal-vocabulary"] = scanLiteralVocabulary
}

func scanObl(name string, ok bool, why string) *Obl {
	v := Verdict{Result: "unsat", Solver: "scan"}
	if !ok {
		v = Verdict{Result: "violated", Solver: "scan", Output: why}
	}
	return &Obl{Name: "scan:" + name, Kind: "scan", V: v, Goal: "true", Guard: "true"}
}

var linkMethods = []string{"Parent", "SetParent", "NextSibling", "SetNextSibling", "PreviousSibling", "SetPreviousSibling",
	"FirstChild", "LastChild", "ChildCount", "HasChildren", "AppendChild", "RemoveChild", "RemoveChildren", "InsertBefore",
	"InsertAfter", "ReplaceChild", "SortChildren"}

// scanNodeAccessors: every type of the module that implements ast.Node gets its tree accessors and
// mutators from the embedded ast.BaseNode (so the interface contracts, which speak about BaseNode's
// fields, describe every implementation).
func scanNodeAccessors(P *Program) []*Obl {
	astPkg := P.tpkgByPath[modPath+"/ast"]
	if astPkg == nil {
		return []*Obl{scanObl("node-accessors", false, "package ast not found")}
	}
	nodeT, _ := astPkg.Scope().Lookup("Node").Type().Underlying().(*types.Interface)
	var out []*Obl
	n := 0
	for _, sp := range P.prog.AllPackages() {
		if !strings.HasPrefix(sp.Pkg.Path(), modPath) {
			continue
		}
		var names []string
		for name := range sp.Members {
			names = append(names, name)
		}
		sort.Strings(names)
		for _, name := range names {
			tn, ok := sp.Members[name].(*ssa.Type)
			if !ok || types.IsInterface(tn.Type()) {
				continue
			}
			pt := types.NewPointer(tn.Type())
			if !types.Implements(pt, nodeT) && !types.Implements(tn.Type(), nodeT) {
				continue
			}
			n++
			ms := P.prog.MethodSets.MethodSet(pt)
			for _, m := range linkMethods {
				sel := ms.Lookup(astPkg, m)
				if sel == nil {
					sel = ms.Lookup(nil, m)
				}
				ok := false
				why := "no method " + m
				if sel != nil {
					if f, isF := sel.Obj().(*types.Func); isF {
						recv := f.Type().(*types.Signature).Recv().Type()
						why = fmt.Sprintf("%s.%s is declared on %s, not on *ast.BaseNode", typeName(tn.Type()), m, typeName(recv))
						if p, isP := recv.(*types.Pointer); isP {
							if nt, isN := p.Elem().(*types.Named); isN && nt.Obj().Name() == "BaseNode" && nt.Obj().Pkg() == astPkg {
								ok = true
							}
						}
					}
				}
				if !ok {
					out = append(out, scanObl("node-accessors:"+typeName(tn.Type())+"."+m, false, why))
				}
			}
		}
	}
	out = append(out, scanObl(fmt.Sprintf("node-accessors (%d node types, %d methods each resolve to *ast.BaseNode)", n, len(linkMethods)), true, ""))
	return out
}

// scanLinkFieldWriters: the link fields of ast.BaseNode are stored to only by BaseNode's own methods.
func scanLinkFieldWriters(P *Program) []*Obl {
	fields := map[string]bool{"firstChild": true, "lastChild": true, "parent": true, "next": true, "prev": true, "childCount": true}
	var out []*Obl
	nsites := 0
	for _, fn := range P.allFuncs {
		for _, b := range fn.Blocks {
			for _, in := range b.Instrs {
				st, ok := in.(*ssa.Store)
				if !ok {
					continue
				}
				fa, ok := st.Addr.(*ssa.FieldAddr)
				if !ok {
					continue
				}
				stT := deref(fa.X.Type())
				nt, ok := stT.(*types.Named)
				if !ok || nt.Obj().Name() != "BaseNode" || nt.Obj().Pkg() == nil || nt.Obj().Pkg().Path() != modPath+"/ast" {
					continue
				}
				f := structOf(stT).Field(fa.Field)
				if !fields[f.Name()] {
					continue
				}
				nsites++
				okFn := fn.Signature.Recv() != nil && strings.HasPrefix(fnKey(fn), "(*BaseNode).")
				if !okFn {
					out = append(out, scanObl("link-field-writers:"+fnDisplayName(fn)+"."+f.Name(), false,
						fmt.Sprintf("%s stores to BaseNode.%s at %s", fnDisplayName(fn), f.Name(), P.fset.Position(st.Pos()))))
				}
			}
		}
	}
	out = append(out, scanObl(fmt.Sprintf("link-field-writers (%d stores, all inside (*ast.BaseNode) methods)", nsites), true, ""))
	return out
}


// scanWriteResultsUnused: in the renderers no control or data decision depends on the result of a
// write to the output writer (so the sequence of writes is the same whether or not the writer fails:
// the bytes accepted before a failure are a prefix of the full output).
func scanWriteResultsUnused(P *Program) []*Obl {
	var out []*Obl
	n := 0
	for _, fn := range P.allFuncs {
		pk := fnDisplayName(fn)
		if !(strings.HasPrefix(pk, "html.") || strings.HasPrefix(pk, "extension.") || strings.HasPrefix(pk, "renderer.")) {
			continue
		}
		for _, b := range fn.Blocks {
			for _, in := range b.Instrs {
				c, ok := in.(*ssa.Call)
				if !ok || !c.Common().IsInvoke() {
					continue
				}
				m := c.Common().Method.Name()
				if m != "Write" && m != "WriteString" && m != "WriteByte" && m != "WriteRune" {
					continue
				}
				tn := typeName(c.Common().Value.Type())
				if tn != "util.BufWriter" && tn != "io.Writer" {
					continue
				}
				n++
				used := false
				if refs := c.Referrers(); refs != nil {
					for _, r := range *refs {
						if ex, ok := r.(*ssa.Extract); ok {
							if rr := ex.Referrers(); rr == nil || len(*rr) == 0 {
								continue
							}
						}
						if _, ok := r.(*ssa.DebugRef); ok {
							continue
						}
						used = true
					}
				}
				if used {
					out = append(out, scanObl("write-results-unused:"+fnDisplayName(fn)+":"+m, false,
						fmt.Sprintf("%s uses the result of %s.%s at %s", fnDisplayName(fn), tn, m, P.fset.Position(c.Pos()))))
				}
			}
		}
	}
	out = append(out, scanObl(fmt.Sprintf("write-results-unused (%d write calls in renderer, renderer/html, extension)", n), true, ""))
	return out
}

// scanConvertShape: (*markdown).Convert is literally NewReader(source); Parse; return Render(writer, source, doc).
func scanConvertShape(P *Program) []*Obl {
	var fn *ssa.Function
	for _, f := range P.allFuncs {
		if fnDisplayName(f) == "goldmark.(*markdown).Convert" {
			fn = f
		}
	}
	if fn == nil {
		return []*Obl{scanObl("convert-shape", false, "(*markdown).Convert not found")}
	}
	var calls []*ssa.Call
	var ret *ssa.Return
	for _, b := range fn.Blocks {
		for _, in := range b.Instrs {
			switch x := in.(type) {
			case *ssa.Call:
				if _, isB := x.Common().Value.(*ssa.Builtin); !isB {
					calls = append(calls, x)
				}
			case *ssa.Return:
				ret = x
			}
		}
	}
	fail := func(why string) []*Obl { return []*Obl{scanObl("convert-shape", false, why)} }
	if len(fn.Blocks) != 1 || len(calls) != 3 || ret == nil || len(ret.Results) != 1 {
		return fail("Convert is no longer a straight line of three calls and one return")
	}
	c0, c1, c2 := calls[0].Common(), calls[1].Common(), calls[2].Common()
	if f, ok := c0.Value.(*ssa.Function); !ok || f.Name() != "NewReader" {
		return fail("first call is not text.NewReader")
	}
	if !c1.IsInvoke() || c1.Method.Name() != "Parse" || len(c1.Args) < 1 || !flowsFrom(c1.Args[0], calls[0]) {
		return fail("second call is not parser.Parse(reader, ...)")
	}
	if !c2.IsInvoke() || c2.Method.Name() != "Render" || len(c2.Args) != 3 || !flowsFrom(c2.Args[2], calls[1]) {
		return fail("third call is not renderer.Render(writer, source, doc)")
	}
	if !flowsFrom(ret.Results[0], calls[2]) {
		return fail("Convert does not return Render's result")
	}
	if !isParamLoad(c2.Args[0], "writer") || !isParamLoad(c2.Args[1], "source") {
		return fail("Render is not called with Convert's own writer and source")
	}
	return []*Obl{scanObl("convert-shape (Convert = NewReader; Parse; return Render(writer, source, doc))", true, "")}
}

// flowsFrom: v is the value of instruction src, possibly through a local variable (NaiveForm) or a type change.
func flowsFrom(v ssa.Value, src ssa.Value) bool {
	for i := 0; i < 6; i++ {
		if v == src {
			return true
		}
		switch x := v.(type) {
		case *ssa.ChangeInterface:
			v = x.X
		case *ssa.ChangeType:
			v = x.X
		case *ssa.MakeInterface:
			v = x.X
		case *ssa.UnOp: // load of a local that is stored exactly once
			a, ok := x.X.(*ssa.Alloc)
			if !ok {
				return false
			}
			var st *ssa.Store
			n := 0
			for _, r := range *a.Referrers() {
				if s, ok := r.(*ssa.Store); ok && s.Addr == a {
					st = s
					n++
				}
			}
			if n != 1 {
				return false
			}
			v = st.Val
		default:
			return false
		}
	}
	return false
}

func isParamLoad(v ssa.Value, name string) bool {
	for i := 0; i < 4; i++ {
		switch x := v.(type) {
		case *ssa.Parameter:
			return x.Name() == name
		case *ssa.UnOp:
			a, ok := x.X.(*ssa.Alloc)
			if !ok {
				return false
			}
			n := 0
			var st *ssa.Store
			for _, r := range *a.Referrers() {
				if s, ok := r.(*ssa.Store); ok && s.Addr == a {
					st = s
					n++
				}
			}
			if n != 1 {
				return false
			}
			v = st.Val
		default:
			return false
		}
	}
	return false
}


// scanSortByLess: PrioritizedSlice.Sort is exactly sort.Slice(s, <its closure>); together with the
// proved contract of that closure (i before j iff Priority_i < Priority_j) and the library contract of
// sort.Slice this gives: Sort leaves s an ascending-by-Priority permutation.
func scanSortByLess(P *Program) []*Obl {
	var fn *ssa.Function
	for _, f := range P.allFuncs {
		if fnDisplayName(f) == "util.PrioritizedSlice.Sort" {
			fn = f
		}
	}
	if fn == nil {
		return []*Obl{scanObl("sort-by-less", false, "util.PrioritizedSlice.Sort not found")}
	}
	var calls []*ssa.Call
	for _, b := range fn.Blocks {
		for _, in := range b.Instrs {
			if c, ok := in.(*ssa.Call); ok {
				if _, isB := c.Common().Value.(*ssa.Builtin); !isB {
					calls = append(calls, c)
				}
			}
		}
	}
	if len(calls) != 1 {
		return []*Obl{scanObl("sort-by-less", false, "Sort does not consist of a single call")}
	}
	cc := calls[0].Common()
	callee, _ := cc.Value.(*ssa.Function)
	if callee == nil || callee.Pkg == nil || callee.Pkg.Pkg.Path() != "sort" || callee.Name() != "Slice" {
		return []*Obl{scanObl("sort-by-less", false, "Sort does not call sort.Slice")}
	}
	ok := len(cc.Args) == 2
	if ok {
		if mc, isMC := cc.Args[1].(*ssa.MakeClosure); !isMC || mc.Fn.(*ssa.Function).Parent() != fn {
			ok = false
		}
	}
	if !ok {
		return []*Obl{scanObl("sort-by-less", false, "sort.Slice is not called with Sort's own comparison closure")}
	}
	return []*Obl{scanObl("sort-by-less (Sort = sort.Slice(s, Sort$1))", true, "")}
}


// scanLiteralVocabulary: every compile-time constant handed to the output writer by the core renderer and the
// extension renderers (WriteString / WriteByte / WriteRune constants, fmt.Fprintf formats) belongs to the fixed
// vocabulary props/C03.vocab.txt; WriteByte / WriteRune are only ever called with constants.
func scanLiteralVocabulary(P *Program) []*Obl {
	vocab := map[string]bool{}
	if b, err := os.ReadFile(filepath.Join(verifRoot(), "props", "C03.vocab.txt")); err == nil {
		for _, ln := range strings.Split(string(b), "\n") {
			if ln == "" || strings.HasPrefix(ln, "#") {
				continue
			}
			if s, err := strconv.Unquote(ln); err == nil {
				vocab[s] = true
			}
		}
	}
	var out []*Obl
	seen := map[string]bool{}
	n := 0
	for _, fn := range P.allFuncs {
		pk := fnDisplayName(fn)
		if !(strings.HasPrefix(pk, "html.") || strings.HasPrefix(pk, "extension.")) {
			continue
		}
		for _, b := range fn.Blocks {
			for _, in := range b.Instrs {
				c, ok := in.(*ssa.Call)
				if !ok {
					continue
				}
				cc := c.Common()
				var lit *ssa.Const
				what := ""
				if cc.IsInvoke() && (typeName(cc.Value.Type()) == "util.BufWriter" || typeName(cc.Value.Type()) == "io.Writer") {
					switch cc.Method.Name() {
					case "WriteString", "WriteByte", "WriteRune":
						what = cc.Method.Name()
						if k, isC := cc.Args[0].(*ssa.Const); isC {
							lit = k
						} else if lk, isL := cc.Args[0].(*ssa.Lookup); isL && isConstString(lk.X) != nil {
							lit = isConstString(lk.X) // one byte of a constant string: the whole constant must be vocabulary
						} else if ix, isI := cc.Args[0].(*ssa.Index); isI && isConstString(ix.X) != nil {
							lit = isConstString(ix.X)
						} else if cc.Method.Name() != "WriteString" {
							if strings.HasPrefix(pk, "html.escapeRune") {
								continue // the one dynamic rune: its precondition is an SMT obligation
							}
							out = append(out, scanObl("literal-vocabulary:"+pk+":"+what+" with a non-constant argument", false,
								fmt.Sprintf("%s calls %s with a computed value at %s", pk, what, P.fset.Position(c.Pos()))))
							continue
						} else {
							continue // dynamic strings are covered by the SMT precondition (literal memory or inert)
						}
					default:
						continue
					}
				} else if f, isF := cc.Value.(*ssa.Function); isF && f.Pkg != nil && f.Pkg.Pkg.Path() == "fmt" && (f.Name() == "Fprintf" || f.Name() == "Fprint") {
					what = "fmt." + f.Name()
					if len(cc.Args) > 1 {
						if k, isC := cc.Args[1].(*ssa.Const); isC {
							lit = k
						}
					}
					if lit == nil {
						out = append(out, scanObl("literal-vocabulary:"+pk+":"+what+" with a non-constant format", false, P.fset.Position(c.Pos()).String()))
						continue
					}
				} else {
					continue
				}
				n++
				var s string
				if lit.Value == nil {
					continue
				}
				if lit.Value.Kind() == constant.String {
					s = constant.StringVal(lit.Value)
				} else if v, ok := constant.Int64Val(constant.ToInt(lit.Value)); ok {
					s = string(rune(v))
				}
				if !vocab[s] && !seen[s] {
					seen[s] = true
					out = append(out, scanObl("literal-vocabulary:"+strconv.Quote(s), false,
						fmt.Sprintf("%s writes the literal %s (via %s at %s), which is not in props/C03.vocab.txt", pk, strconv.Quote(s), what, P.fset.Position(c.Pos()))))
				}
			}
		}
	}
	out = append(out, scanObl(fmt.Sprintf("literal-vocabulary (%d constant writes, %d vocabulary entries)", n, len(vocab)), true, ""))
	return out
}


func isConstString(v ssa.Value) *ssa.Const {
	if k, ok := v.(*ssa.Const); ok && k.Value != nil && k.Value.Kind() == constant.String {
		return k
	}
	return nil
}

func init() {
	scans["reader-delegates"] = scanReaderDelegates
}

// scanReaderDelegates: the Reader methods whose interface contract is verified on a shared helper
// (skipSpacesReader, ...) are, in both implementations, exactly `return helper(r, args...)`: one static call
// of the helper with the receiver (as a Reader) and the parameters in order, whose results are returned.
func scanReaderDelegates(P *Program) []*Obl {
	pairs := map[string]string{"SkipSpaces": "skipSpacesReader", "SkipBlankLines": "skipBlankLinesReader", "FindClosure": "findClosureReader"}
	var out []*Obl
	for _, typ := range []string{"reader", "blockReader"} {
		for _, m := range []string{"FindClosure", "SkipBlankLines", "SkipSpaces"} {
			name := "reader-delegates:(*" + typ + ")." + m
			fn := P.funcs[modPath+"/text::(*"+typ+")."+m]
			if fn == nil {
				out = append(out, scanObl(name, false, "method not found"))
				continue
			}
			ok, why := delegatesTo(fn, pairs[m])
			out = append(out, scanObl(name, ok, why))
		}
	}
	return out
}

func delegatesTo(fn *ssa.Function, helper string) (bool, string) {
	var call *ssa.Call
	for _, b := range fn.Blocks {
		for _, in := range b.Instrs {
			switch x := in.(type) {
			case *ssa.Call:
				if _, isBuiltin := x.Common().Value.(*ssa.Builtin); isBuiltin {
					continue
				}
				if call != nil {
					return false, "more than one call"
				}
				call = x
			case *ssa.Store:
				if a, ok := x.Addr.(*ssa.Alloc); !ok || !allocIsVariable(a) {
					return false, "stores to the heap"
				}
			case *ssa.If, *ssa.Go, *ssa.Defer, *ssa.MapUpdate, *ssa.Panic:
				return false, fmt.Sprintf("contains %T", in)
			}
		}
	}
	if call == nil {
		return false, "no call"
	}
	callee, ok := call.Common().Value.(*ssa.Function)
	if !ok || call.Common().IsInvoke() || callee.Name() != helper || callee.Pkg != fn.Pkg {
		return false, "does not call " + helper
	}
	args := call.Common().Args
	if len(args) != len(fn.Params) {
		return false, "argument count"
	}
	for i, a := range args {
		v := a
		if mi, ok := v.(*ssa.MakeInterface); ok && i == 0 {
			v = mi.X
		}
		if !isParamLoad(v, fn.Params[i].Name()) && v != ssa.Value(fn.Params[i]) {
			return false, fmt.Sprintf("argument %d is not parameter %s", i, fn.Params[i].Name())
		}
	}
	for _, b := range fn.Blocks {
		for _, in := range b.Instrs {
			r, ok := in.(*ssa.Return)
			if !ok {
				continue
			}
			for k, res := range r.Results {
				// NaiveForm: a result passes through a result variable that is stored exactly once
				if ld, ok := res.(*ssa.UnOp); ok {
					if a, ok := ld.X.(*ssa.Alloc); ok && allocIsVariable(a) {
						var st *ssa.Store
						n := 0
						for _, ref := range *a.Referrers() {
							if s, ok := ref.(*ssa.Store); ok && s.Addr == a {
								st = s
								n++
							}
						}
						if n == 1 {
							res = st.Val
						}
					}
				}
				if ex, ok := res.(*ssa.Extract); ok && ex.Tuple == ssa.Value(call) && ex.Index == k {
					continue
				}
				if res == ssa.Value(call) && len(r.Results) == 1 {
					continue
				}
				// NaiveForm: results may pass through result variables
				if !flowsFrom(res, call) {
					return false, "returns something other than the helper's results"
				}
			}
		}
	}
	return true, ""
}

func init() {
	scans["optioner-fresh"] = scanOptionerFresh
}

// scanOptionerFresh: parser/renderer components that accept options lazily (they implement parser.SetOptioner or
// renderer.SetOptioner, and Parse/Render's Once closures push the instance's options into them) must belong to ONE
// configured instance, otherwise configuring one instance changes another.  Obligations: (1) no package-level variable
// holds such a component, (2) every function of the module that returns such a component returns an object it
// allocated itself.
func scanOptionerFresh(P *Program) []*Obl {
	var ifaces []*types.Interface
	for _, path := range []string{modPath + "/parser", modPath + "/renderer"} {
		if tp := P.tpkgByPath[path]; tp != nil {
			if o := tp.Scope().Lookup("SetOptioner"); o != nil {
				if it, ok := o.Type().Underlying().(*types.Interface); ok {
					ifaces = append(ifaces, it)
				}
			}
		}
	}
	if len(ifaces) == 0 {
		return []*Obl{scanObl("optioner-fresh", false, "SetOptioner interfaces not found")}
	}
	if os.Getenv("GVC_DEBUG_SCAN") != "" {
		fmt.Fprintln(os.Stderr, "optioner ifaces:", len(ifaces))
	}
	isOptioner := func(t types.Type) bool {
		pt, ok := t.(*types.Pointer)
		if !ok {
			return false
		}
		nt, ok := pt.Elem().(*types.Named)
		if !ok || nt.Obj().Pkg() == nil || !strings.HasPrefix(nt.Obj().Pkg().Path(), modPath) {
			return false
		}
		if _, isStruct := nt.Underlying().(*types.Struct); !isStruct {
			return false
		}
		// configuration structs themselves (html.Config, TableConfig, ...) are embedded by value in their owners
		if strings.HasSuffix(nt.Obj().Name(), "Config") {
			return false
		}
		for _, it := range ifaces {
			if types.Implements(pt, it) {
				return true
			}
		}
		return false
	}
	var out []*Obl
	nTypes := map[string]bool{}
	// (1) globals
	for _, sp := range P.prog.AllPackages() {
		if !strings.HasPrefix(sp.Pkg.Path(), modPath) {
			continue
		}
		var names []string
		for n := range sp.Members {
			names = append(names, n)
		}
		sort.Strings(names)
		for _, n := range names {
			g, ok := sp.Members[n].(*ssa.Global)
			if !ok {
				continue
			}
			if isOptioner(deref(g.Type())) {
				out = append(out, scanObl("optioner-fresh:global:"+sp.Pkg.Name()+"."+n, false, "package-level variable of a component type that takes per-instance options: "+deref(g.Type()).String()))
			}
		}
		// stores of optioner values into interface-typed globals (in the initialiser or anywhere else)
	}
	for _, fn := range P.allFuncs {
		for _, b := range fn.Blocks {
			for _, in := range b.Instrs {
				if st, ok := in.(*ssa.Store); ok {
					if g, ok := st.Addr.(*ssa.Global); ok {
						if mi, ok := st.Val.(*ssa.MakeInterface); ok && isOptioner(mi.X.Type()) {
							out = append(out, scanObl("optioner-fresh:global:"+g.Name(), false, "a component that takes per-instance options is stored in package-level variable "+g.Name()))
						}
					}
				}
				r, ok := in.(*ssa.Return)
				if !ok {
					continue
				}
				for _, rv := range r.Results {
					v := traceLocal(rv)
					if mi, ok := v.(*ssa.MakeInterface); ok {
						v = traceLocal(mi.X)
					}
					if os.Getenv("GVC_DEBUG_SCAN") != "" && strings.Contains(fn.Name(), "NewATXHeadingParser") {
						fmt.Fprintf(os.Stderr, "ret %s: %T %s optioner=%v\n", fn.Name(), v, v.Type(), isOptioner(v.Type()))
					}
					if !isOptioner(v.Type()) {
						continue
					}
					nTypes[v.Type().String()] = true
					// methods returning their receiver (fluent setters) are fine: the object is the caller's
					if p, ok := traceLocal(v).(*ssa.Parameter); ok && len(fn.Params) > 0 && p == fn.Params[0] && fn.Signature.Recv() != nil {
						continue
					}
					fresh := P.valueIsFreshAlloc(rv, fn, 0)
					out = append(out, scanObl("optioner-fresh:"+fnDisplayName(fn)+":"+v.Type().String(), fresh, "returns a component that takes per-instance options but is not allocated by this call (shared between configured instances)"))
				}
			}
		}
	}
	// package initialisers store globals too
	for _, ini := range P.inits {
		for _, b := range ini.Blocks {
			for _, in := range b.Instrs {
				if st, ok := in.(*ssa.Store); ok {
					if g, ok := st.Addr.(*ssa.Global); ok {
						v := st.Val
						if mi, ok := v.(*ssa.MakeInterface); ok {
							v = mi.X
						}
						if isOptioner(v.Type()) {
							out = append(out, scanObl("optioner-fresh:global:"+g.Name(), false, "package initialiser stores a component that takes per-instance options in "+g.Name()))
						}
					}
				}
			}
		}
	}
	if len(out) == 0 {
		out = append(out, scanObl("optioner-fresh", false, "no constructor of an option-taking component found (scan is vacuous)"))
	}
	return out
}

// traceLocal follows loads of single-assignment locals (NaiveForm keeps locals as Alloc + Store + load).
func traceLocal(v ssa.Value) ssa.Value {
	for i := 0; i < 6; i++ {
		u, ok := v.(*ssa.UnOp)
		if !ok {
			return v
		}
		a, ok := u.X.(*ssa.Alloc)
		if !ok {
			return v
		}
		var st *ssa.Store
		n := 0
		for _, r := range *a.Referrers() {
			if s, ok := r.(*ssa.Store); ok && s.Addr == a {
				st = s
				n++
			}
		}
		if n != 1 {
			return v
		}
		v = st.Val
	}
	return v
}
