package main

import (
	"fmt"
	"go/types"
	"sort"
	"strings"

	"golang.org/x/tools/go/ssa"
)

func init() {
	scans["node-accessors"] = scanNodeAccessors
	scans["link-field-writers"] = scanLinkFieldWriters
}

func scanObl(name string, ok bool, why string) *Obl {
	v := Verdict{Result: "unsat", Solver: "scan"}
	if !ok {
		v = Verdict{Result: "violated", Solver: "scan", Output: why}
	}
	return &Obl{Name: "scan:" + name, Kind: "scan", V: v, Goal: "true", Guard: "true"}
}

var linkMethods = []string{"Parent", "SetParent", "NextSibling", "SetNextSibling", "PreviousSibling", "SetPreviousSibling",
	"FirstChild", "LastChild", "ChildCount", "HasChildren", "AppendChild", "RemoveChild", "RemoveChildren", "InsertBefore",
	"InsertAfter", "ReplaceChild", "SortChildren"}

// scanNodeAccessors: every type of the module that implements ast.Node gets its tree accessors and
// mutators from the embedded ast.BaseNode (so the interface contracts, which speak about BaseNode's
// fields, describe every implementation).
func scanNodeAccessors(P *Program) []*Obl {
	astPkg := P.tpkgByPath[modPath+"/ast"]
	if astPkg == nil {
		return []*Obl{scanObl("node-accessors", false, "package ast not found")}
	}
	nodeT, _ := astPkg.Scope().Lookup("Node").Type().Underlying().(*types.Interface)
	var out []*Obl
	n := 0
	for _, sp := range P.prog.AllPackages() {
		if !strings.HasPrefix(sp.Pkg.Path(), modPath) {
			continue
		}
		var names []string
		for name := range sp.Members {
			names = append(names, name)
		}
		sort.Strings(names)
		for _, name := range names {
			tn, ok := sp.Members[name].(*ssa.Type)
			if !ok || types.IsInterface(tn.Type()) {
				continue
			}
			pt := types.NewPointer(tn.Type())
			if !types.Implements(pt, nodeT) && !types.Implements(tn.Type(), nodeT) {
				continue
			}
			n++
			ms := P.prog.MethodSets.MethodSet(pt)
			for _, m := range linkMethods {
				sel := ms.Lookup(astPkg, m)
				if sel == nil {
					sel = ms.Lookup(nil, m)
				}
				ok := false
				why := "no method " + m
				if sel != nil {
					if f, isF := sel.Obj().(*types.Func); isF {
						recv := f.Type().(*types.Signature).Recv().Type()
						why = fmt.Sprintf("%s.%s is declared on %s, not on *ast.BaseNode", typeName(tn.Type()), m, typeName(recv))
						if p, isP := recv.(*types.Pointer); isP {
							if nt, isN := p.Elem().(*types.Named); isN && nt.Obj().Name() == "BaseNode" && nt.Obj().Pkg() == astPkg {
								ok = true
							}
						}
					}
				}
				if !ok {
					out = append(out, scanObl("node-accessors:"+typeName(tn.Type())+"."+m, false, why))
				}
			}
		}
	}
	out = append(out, scanObl(fmt.Sprintf("node-accessors (%d node types, %d methods each resolve to *ast.BaseNode)", n, len(linkMethods)), true, ""))
	return out
}

// scanLinkFieldWriters: the link fields of ast.BaseNode are stored to only by BaseNode's own methods.
func scanLinkFieldWriters(P *Program) []*Obl {
	fields := map[string]bool{"firstChild": true, "lastChild": true, "parent": true, "next": true, "prev": true, "childCount": true}
	var out []*Obl
	nsites := 0
	for _, fn := range P.allFuncs {
		for _, b := range fn.Blocks {
			for _, in := range b.Instrs {
				st, ok := in.(*ssa.Store)
				if !ok {
					continue
				}
				fa, ok := st.Addr.(*ssa.FieldAddr)
				if !ok {
					continue
				}
				stT := deref(fa.X.Type())
				nt, ok := stT.(*types.Named)
				if !ok || nt.Obj().Name() != "BaseNode" || nt.Obj().Pkg() == nil || nt.Obj().Pkg().Path() != modPath+"/ast" {
					continue
				}
				f := structOf(stT).Field(fa.Field)
				if !fields[f.Name()] {
					continue
				}
				nsites++
				okFn := fn.Signature.Recv() != nil && strings.HasPrefix(fnKey(fn), "(*BaseNode).")
				if !okFn {
					out = append(out, scanObl("link-field-writers:"+fnDisplayName(fn)+"."+f.Name(), false,
						fmt.Sprintf("%s stores to BaseNode.%s at %s", fnDisplayName(fn), f.Name(), P.fset.Position(st.Pos()))))
				}
			}
		}
	}
	out = append(out, scanObl(fmt.Sprintf("link-field-writers (%d stores, all inside (*ast.BaseNode) methods)", nsites), true, ""))
	return out
}
