package main

import (
	"fmt"
	"go/token"
	"go/types"
	"strings"

	"golang.org/x/tools/go/ssa"
)

// ---------- checking a function body against its own `modifies` clause ----------
//
// A function with a `modifies` clause gets one `frame` obligation per heap write (store, in-place
// append, copy, map update) and per call: the written location must be fresh (allocated after the
// function's entry) or one of the declared locations.  Callers rely on exactly this clause.

type modLoc struct {
	kind  string // field | object | contents | map | ghost
	hname string // field: heap array name
	addr  string // field/object: address term (entry state)
	arr0  string // contents: array id in the entry state
	item  string // source text
	expr  *SExpr
	off0  string     // nested: offset and length of the outer slice in the entry state
	len0  string
	elemT types.Type // nested: element type of the outer slice (itself a slice type)
}

// parseModItem parses one modifies item to an expression.
func parseModItem(item, pos string) *SExpr {
	toks, err := lex(item, 0, pos)
	if err != nil {
		unsup("modifies item %q: %v", item, err)
	}
	p := &sparser{toks: toks, file: pos}
	var e *SExpr
	func() {
		defer func() {
			if r := recover(); r != nil {
				unsup("modifies item %q: %v", item, r)
			}
		}()
		e = p.expr()
	}()
	return e
}

// declaredLocs evaluates the items of sp's modifies clause in env (whose cur state is the pre-state).
func (g *Gen) declaredLocs(env *Env, sp *FuncSpec) []modLoc {
	var out []modLoc
	for _, item := range sp.Modifies {
		if gf := g.P.ghostVar(item); gf != nil {
			out = append(out, modLoc{kind: "ghost", hname: "ghost|" + gf.Name, item: item})
			continue
		}
		e := parseModItem(item, sp.Pos)
		switch e.Op {
		case "sel":
			base := g.eval(env, e.Args[0])
			if base.K != KPtr {
				unsup("modifies: base of %s is not a pointer", e)
			}
			f, ok := fieldByName(deref(base.T), e.Name)
			if !ok {
				unsup("modifies: no field %s", e.Name)
			}
			addr := f.addr(g, base.S)
			switch kindOf(f.v.Type()) {
			case KStruct:
				out = append(out, modLoc{kind: "object", addr: g.subAddr(f.owner, f.v, addr), item: item, expr: e})
			default:
				out = append(out, modLoc{kind: "field", hname: "H|" + typeName(f.owner) + "|" + f.v.Name(), addr: addr, item: item, expr: e})
			}
		case "call":
			switch e.Name {
			case "contents":
				s := g.eval(env, e.Args[0])
				out = append(out, modLoc{kind: "contents", arr0: s.Arr, item: item, expr: e.Args[0]})
			case "object":
				p := g.eval(env, e.Args[0])
				out = append(out, modLoc{kind: "object", addr: p.S, item: item, expr: e, elemT: deref(p.T)})
			case "nested":
				s := g.eval(env, e.Args[0])
				out = append(out, modLoc{kind: "nested", arr0: s.Arr, off0: s.Off, len0: s.Len, elemT: elemTypeOf(s.T), item: item, expr: e.Args[0]})
			case "all":
				// all(T.f): field f of every object of struct type T (used with an explicit frame postcondition)
				sel := e.Args[0]
				if sel.Op != "sel" || sel.Args[0].Op != "ident" {
					unsup("modifies all(T.f) expects Type.field")
				}
				t := g.P.resolveType(sel.Args[0].Name, sp.Pkg)
				if t == nil || structOf(t) == nil {
					unsup("modifies all(): unknown struct type %s", sel.Args[0].Name)
				}
				f, ok := fieldByName(t, sel.Name)
				if !ok {
					unsup("modifies all(): no field %s", sel.Name)
				}
				out = append(out, modLoc{kind: "fieldall", hname: "H|" + typeName(f.owner) + "|" + f.v.Name(), item: item, expr: e})
			case "mapcontents":
				m := g.eval(env, e.Args[0])
				out = append(out, modLoc{kind: "map", addr: m.S, item: item, expr: e})
			default:
				unsup("modifies item %s", e)
			}
		default:
			unsup("modifies item %s", e)
		}
	}
	return out
}

func (g *Gen) ownLocs() []modLoc {
	if g.ownLocsDone {
		return g.ownLocsCache
	}
	g.ownLocsDone = true
	env := g.specEnv(g.entry, g.entry)
	g.ownLocsCache = g.declaredLocs(env, g.spec)
	return g.ownLocsCache
}

// rootOf strips interior-address wrappers: (|sub|T|f| X) -> X ; returns array id for element addresses.
func rootOf(addr string) (root string, isArr bool) {
	for {
		if strings.HasPrefix(addr, "(|sub!") {
			i := strings.Index(addr[1:], "| ")
			if i < 0 {
				return addr, false
			}
			addr = addr[i+3 : len(addr)-1]
			continue
		}
		if strings.HasPrefix(addr, "(|ea!") {
			i := strings.Index(addr[1:], "| ")
			rest := addr[i+3 : len(addr)-1]
			// rest = "<arr> <idx>" ; arr is the first balanced term
			return firstTerm(rest), true
		}
		return addr, false
	}
}

func firstTerm(s string) string {
	d := 0
	inq := false
	for i := 0; i < len(s); i++ {
		switch s[i] {
		case '|':
			inq = !inq
		case '(':
			if !inq {
				d++
			}
		case ')':
			if !inq {
				d--
			}
		case ' ':
			if d == 0 && !inq {
				return s[:i]
			}
		}
	}
	return s
}

func (g *Gen) freshAddr(addr string) string {
	r, isArr := rootOf(addr)
	if isArr {
		return "(>= " + r + " " + g.abrk(g.entry) + ")"
	}
	if strings.HasPrefix(r, "|G!") {
		return "false"
	}
	return "(>= " + r + " " + g.brk(g.entry) + ")"
}

// allowedField: may the field array hname be written at address addr?
func (g *Gen) allowedField(st *State, hname, addr string) string {
	alts := []string{g.freshAddr(addr)}
	if r, isArr := rootOf(addr); isArr {
		alts = append(alts, g.allowedArr(st, r)) // an element of a struct slice: covered by contents(s)
	}
	for _, l := range g.ownLocs() {
		switch l.kind {
		case "field":
			if l.hname == hname || strings.HasPrefix(hname, l.hname+"#") {
				alts = append(alts, eq(addr, l.addr))
			}
		case "fieldall":
			if l.hname == hname || strings.HasPrefix(hname, l.hname+"#") {
				return "true"
			}
		case "object":
			alts = append(alts, g.insideObject(addr, l.addr))
		}
	}
	return or(alts...)
}

// insideObject: addr is obj or an interior address of obj (syntactic peeling of sub wrappers).
func (g *Gen) insideObject(addr, obj string) string {
	alts := []string{eq(addr, obj)}
	a := addr
	for strings.HasPrefix(a, "(|sub!") {
		i := strings.Index(a[1:], "| ")
		if i < 0 {
			break
		}
		a = a[i+3 : len(a)-1]
		alts = append(alts, eq(a, obj))
	}
	return or(alts...)
}

func (g *Gen) allowedArr(st *State, arr string) string {
	alts := []string{eq(arr, "0"), "(>= " + arr + " " + g.abrk(g.entry) + ")"}
	for _, l := range g.ownLocs() {
		if l.kind == "contents" {
			alts = append(alts, eq(arr, l.arr0))
			// the slice currently stored in that location (in-place growth keeps the array)
			env := g.specEnv(st, g.entry)
			env.locals = true
			func() {
				defer func() { recover() }()
				cur := g.eval(env, l.expr)
				alts = append(alts, eq(arr, cur.Arr))
			}()
		}
		if l.kind == "object" && l.elemT != nil {
			// an array-typed field of a declared object
			if so := structOf(l.elemT); so != nil {
				for i := 0; i < so.NumFields(); i++ {
					if _, isArr := so.Field(i).Type().Underlying().(*types.Array); isArr {
						alts = append(alts, eq(arr, g.arrOf(l.elemT, so.Field(i), l.addr)))
					}
				}
			}
		}
		if l.kind == "nested" {
			// arr is the backing array of one of the slices stored in the outer slice (entry state or now)
			for _, hs := range []*State{g.entry, st} {
				m := g.memSym(hs, l.elemT, "#arr", KInt)
				g.n++
				k := fmt.Sprintf("nk!%d", g.n)
				alts = append(alts, fmt.Sprintf("(exists ((%s Int)) (and (<= 0 %s) (< %s %s) (= %s (select (select %s %s) (+ %s %s)))))", k, k, k, l.len0, arr, m, l.arr0, l.off0, k))
			}
		}
	}
	return or(alts...)
}

func (g *Gen) hasFrame() bool { return g.spec != nil && g.spec.HasMod && !g.spec.ModAll && !g.inFrameEval }

// frameCheckStore is called for every heap store.
func (g *Gen) frameCheckStore(st *State, p *Val, pos token.Pos, text string) {
	if !g.hasFrame() {
		return
	}
	g.inFrameEval = true
	defer func() { g.inFrameEval = false }()
	switch p.K {
	case KFieldPtr:
		g.oblige("frame", "store "+text, pos, st.reach, g.allowedField(st, p.HName, p.Base))
	case KPtr:
		t := deref(p.T)
		if structOf(t) != nil {
			alts := []string{g.freshAddr(p.S)}
			if r, isArr := rootOf(p.S); isArr {
				alts = append(alts, g.allowedArr(st, r))
			}
			for _, l := range g.ownLocs() {
				if l.kind == "object" {
					alts = append(alts, g.insideObject(p.S, l.addr))
				}
			}
			g.oblige("frame", "store "+text, pos, st.reach, or(alts...))
		} else {
			g.oblige("frame", "store "+text, pos, st.reach, g.allowedField(st, cellName(t), p.S))
		}
	case KElemPtr:
		if p.Arr == "tbl" {
			return
		}
		g.oblige("frame", "store "+text, pos, st.reach, g.allowedArr(st, p.Arr))
	case KArrPtr:
		g.oblige("frame", "store "+text, pos, st.reach, g.allowedArr(st, p.Arr))
	}
}

func (g *Gen) frameCheckAppend(st *State, s *Val, n string, pos token.Pos, text string) {
	if !g.hasFrame() {
		return
	}
	g.inFrameEval = true
	defer func() { g.inFrameEval = false }()
	inplace := "(<= (+ " + s.Len + " " + n + ") " + s.Cap + ")"
	g.oblige("frame", text, pos, st.reach, or(not(inplace), eq(n, "0"), g.allowedArr(st, s.Arr)))
}

func (g *Gen) frameCheckCopy(st *State, d *Val, n string, pos token.Pos, text string) {
	if !g.hasFrame() {
		return
	}
	g.inFrameEval = true
	defer func() { g.inFrameEval = false }()
	g.oblige("frame", text, pos, st.reach, or(eq(n, "0"), g.allowedArr(st, d.Arr)))
}

func (g *Gen) frameCheckMap(st *State, m string, pos token.Pos, text string) {
	if !g.hasFrame() {
		return
	}
	alts := []string{"(>= " + m + " " + g.brk(g.entry) + ")"}
	for _, l := range g.ownLocs() {
		if l.kind == "map" {
			alts = append(alts, eq(m, l.addr))
		}
	}
	g.oblige("frame", "map write "+text, pos, st.reach, or(alts...))
}

// frameCheckCall: the callee's declared (or inferred) write set must lie inside the caller's.
// locs were evaluated in the callee's pre-state; post is the state after the call (for contents()).
func (g *Gen) frameCheckCall(st *State, pre *State, c *ssa.Call, sp *FuncSpec, env *Env, callee string) {
	if !g.hasFrame() {
		return
	}
	g.inFrameEval = true
	defer func() { g.inFrameEval = false }()
	if sp.ModAll {
		g.oblige("frame", fmt.Sprintf("call %s modifies everything", callee), c.Pos(), st.reach, "false")
		return
	}
	penv := *env
	penv.cur, penv.old = pre, pre
	for _, l := range g.declaredLocs(&penv, sp) {
		var goal string
		switch l.kind {
		case "ghost":
			goal = "false"
			for _, o := range g.ownLocs() {
				if o.kind == "ghost" && o.hname == l.hname {
					goal = "true"
				}
			}
		case "field":
			goal = g.allowedField(st, l.hname, l.addr)
		case "fieldall":
			goal = "false"
			for _, o := range g.ownLocs() {
				if o.kind == "fieldall" && o.hname == l.hname {
					goal = "true"
				}
			}
		case "object":
			alts := []string{g.freshAddr(l.addr)}
			for _, o := range g.ownLocs() {
				if o.kind == "object" {
					alts = append(alts, g.insideObject(l.addr, o.addr))
				}
			}
			goal = or(alts...)
		case "contents":
			// the array written is the one held after the call (fresh or the old one)
			qenv := *env
			qenv.cur, qenv.old = st, pre
			cur := g.eval(&qenv, l.expr)
			goal = g.allowedArr(st, cur.Arr)
		case "map":
			alts := []string{"(>= " + l.addr + " " + g.brk(g.entry) + ")"}
			for _, o := range g.ownLocs() {
				if o.kind == "map" {
					alts = append(alts, eq(l.addr, o.addr))
				}
			}
			goal = or(alts...)
		case "nested":
			// every array the callee may grow in place (the backing arrays of the inner slices, as they are
			// before the call) must be one the caller may write
			g.n++
			k := fmt.Sprintf("fk!%d", g.n)
			m := g.memSym(pre, l.elemT, "#arr", KInt)
			inner := fmt.Sprintf("(select (select %s %s) (+ %s %s))", m, l.arr0, l.off0, k)
			goal = fmt.Sprintf("(forall ((%s Int)) (! (=> (and (<= 0 %s) (< %s %s)) %s) :pattern (%s)))", k, k, k, l.len0, g.allowedArr(st, inner), inner)
		}
		g.oblige("frame", fmt.Sprintf("call %s modifies %s", callee, l.item), c.Pos(), st.reach, goal)
	}
}

// frameCheckOpaqueCall: callee without a modifies clause; its inferred write set must be empty
// (apart from allocation counters) for a caller that promises a frame.
func (g *Gen) frameCheckOpaqueCall(st *State, c *ssa.Call, ms *ModSet, callee string) {
	if !g.hasFrame() {
		return
	}
	var names []string
	for _, n := range sortedKeys(ms.Names) {
		if n == "brk" || n == "abrk" {
			continue
		}
		names = append(names, n)
	}
	if ms.All {
		names = append(names, "<everything>")
	}
	if len(names) == 0 {
		return
	}
	if len(names) > 4 {
		names = append(names[:4], "…")
	}
	o := g.oblige("frame", fmt.Sprintf("call %s has no modifies clause (inferred writes: %s)", callee, strings.Join(names, ",")), c.Pos(), st.reach, "false")
	_ = o
}

var _ = types.Typ
