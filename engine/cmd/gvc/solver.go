package main

import (
	"bytes"
	"context"
	"fmt"
	"os/exec"
	"strings"
	"sync"
	"time"
)

// Verdict of one SMT query.
type Verdict struct {
	Result string  // unsat | sat | unknown | timeout | error
	Solver string  // which back end answered
	Secs   float64 // wall time of the winning answer
	Output string  // raw solver output (first 4k)
	Model  string  // get-value output when sat
}

type solverSpec struct {
	name string
	argv func(timeoutMs int) []string
}

var solvers = []solverSpec{
	{"z3-5.1.0", func(ms int) []string {
		return []string{"z3-new", "-in", "-smt2", fmt.Sprintf("-t:%d", ms)}
	}},
	{"cvc5-1.0", func(ms int) []string {
		return []string{"cvc5", "--lang=smt2", fmt.Sprintf("--tlimit=%d", ms), "--produce-models", "-"}
	}},
	{"z3-4.8.12", func(ms int) []string {
		return []string{"/usr/bin/z3", "-in", "-smt2", fmt.Sprintf("-t:%d", ms)}
	}},
}

func runOne(ctx context.Context, sp solverSpec, script string, ms int) Verdict {
	t0 := time.Now()
	argv := sp.argv(ms)
	cctx, cancel := context.WithTimeout(ctx, time.Duration(ms+1500)*time.Millisecond)
	defer cancel()
	cmd := exec.CommandContext(cctx, argv[0], argv[1:]...)
	cmd.Stdin = strings.NewReader(script)
	var out bytes.Buffer
	cmd.Stdout = &out
	cmd.Stderr = &out
	_ = cmd.Run()
	secs := time.Since(t0).Seconds()
	o := out.String()
	first := strings.TrimSpace(o)
	if i := strings.IndexByte(first, '\n'); i >= 0 {
		first = first[:i]
	}
	first = strings.TrimSpace(first)
	v := Verdict{Solver: sp.name, Secs: secs}
	if len(o) > 4096 {
		v.Output = o[:4096]
	} else {
		v.Output = o
	}
	switch {
	case first == "unsat":
		v.Result = "unsat"
	case first == "sat":
		v.Result = "sat"
		if i := strings.IndexByte(o, '\n'); i >= 0 {
			v.Model = strings.TrimSpace(o[i+1:])
		}
	case first == "unknown" || first == "timeout" || strings.Contains(first, "timeout") || strings.Contains(first, "interrupted"):
		v.Result = "unknown"
	case cctx.Err() != nil:
		v.Result = "timeout"
	default:
		v.Result = "error"
	}
	return v
}

// solverSem bounds the number of solver processes in flight.
var solverSem = make(chan struct{}, 16)

// Solve: stage 1 z3-new with a short limit; stage 2 race all three.
// getModel: text appended after (check-sat) e.g. (get-value (...)).
func Solve(script string, quickMs, fullMs int) Verdict {
	solverSem <- struct{}{}
	v := runOne(context.Background(), solvers[0], script, quickMs)
	<-solverSem
	if v.Result == "unsat" || v.Result == "sat" {
		return v
	}
	first := v
	// race
	ctx, cancel := context.WithCancel(context.Background())
	defer cancel()
	ch := make(chan Verdict, len(solvers))
	var wg sync.WaitGroup
	for _, sp := range solvers {
		wg.Add(1)
		go func(sp solverSpec) {
			defer wg.Done()
			solverSem <- struct{}{}
			defer func() { <-solverSem }()
			ch <- runOne(ctx, sp, script, fullMs)
		}(sp)
	}
	go func() { wg.Wait(); close(ch) }()
	var best *Verdict
	outs := []string{first.Solver + ": " + first.Result}
	for r := range ch {
		r := r
		outs = append(outs, r.Solver+": "+r.Result)
		if r.Result == "unsat" {
			cancel()
			return r
		}
		if r.Result == "sat" && best == nil {
			best = &r
		}
		if r.Result == "error" && best == nil {
			// keep the error text visible
			outs = append(outs, r.Output)
		}
	}
	if best != nil {
		return *best
	}
	return Verdict{Result: "unknown", Solver: "all", Secs: 0, Output: strings.Join(outs, "\n")}
}
