package main

import (
	"fmt"
	"go/types"
	"os"
	"sort"
	"strings"

	"golang.org/x/tools/go/ssa"
)

// ---------- frame obligations over the call graph (C06, C07) ----------
//
// Region policy.  Heap locations are classified by the static type that owns the written field:
//   G  package-level variables
//   S  configured singletons: every named struct type of the module whose (pointer) type implements
//      BlockParser / InlineParser / ParagraphTransformer / ASTTransformer / NodeRenderer / Extender /
//      html.Writer / Parser / Renderer / Markdown, and every module struct type reachable through their fields
//      (the *Config types)
//   T  AST nodes: every named struct type implementing ast.Node, and BaseNode / BaseBlock / BaseInline
// Parse frame:  no function reachable from (*parser).Parse writes G or S  (except inside a sync.Once closure)
// Render frame: no function reachable from (*renderer).Render writes G, S or T (except inside a sync.Once closure)
// A write to an object allocated by the writing function itself is always allowed.

func init() {
	scans["parse-frame"] = func(P *Program) []*Obl { return scanFrame(P, "parse") }
	scans["render-frame"] = func(P *Program) []*Obl { return scanFrame(P, "render") }
	scans["once-discipline"] = scanOnceDiscipline
}

type regions struct {
	single map[string]bool // type names (pkg.Name) of singleton-owned struct types
	node   map[string]bool
}

func (P *Program) ifaceByName(pkgSuffix, name string) *types.Interface {
	for path, tp := range P.tpkgByPath {
		if path == modPath+pkgSuffix {
			if o := tp.Scope().Lookup(name); o != nil {
				if it, ok := o.Type().Underlying().(*types.Interface); ok {
					return it
				}
			}
		}
	}
	return nil
}

func (P *Program) computeRegions() *regions {
	if P.regionsCache != nil {
		return P.regionsCache
	}
	r := &regions{single: map[string]bool{}, node: map[string]bool{}}
	var singleIfaces []*types.Interface
	for _, spec := range [][2]string{{"/parser", "BlockParser"}, {"/parser", "InlineParser"}, {"/parser", "ParagraphTransformer"},
		{"/parser", "ASTTransformer"}, {"/parser", "Parser"}, {"/renderer", "NodeRenderer"}, {"/renderer", "Renderer"},
		{"/renderer/html", "Writer"}, {"", "Extender"}, {"", "Markdown"}, {"/parser", "DelimiterProcessor"}} {
		if it := P.ifaceByName(spec[0], spec[1]); it != nil {
			singleIfaces = append(singleIfaces, it)
		}
	}
	nodeT := P.ifaceByName("/ast", "Node")
	var work []types.Type
	for _, sp := range P.prog.AllPackages() {
		if !strings.HasPrefix(sp.Pkg.Path(), modPath) || strings.HasSuffix(sp.Pkg.Path(), "/testutil") {
			continue
		}
		for _, m := range sp.Members {
			tn, ok := m.(*ssa.Type)
			if !ok || types.IsInterface(tn.Type()) {
				continue
			}
			if _, isStruct := tn.Type().Underlying().(*types.Struct); !isStruct {
				continue
			}
			pt := types.NewPointer(tn.Type())
			if nodeT != nil && (types.Implements(pt, nodeT) || types.Implements(tn.Type(), nodeT)) {
				r.node[typeName(tn.Type())] = true
				continue
			}
			for _, it := range singleIfaces {
				if types.Implements(pt, it) || types.Implements(tn.Type(), it) {
					if !r.single[typeName(tn.Type())] {
						r.single[typeName(tn.Type())] = true
						work = append(work, tn.Type())
					}
				}
			}
		}
	}
	for _, n := range []string{"ast.BaseNode", "ast.BaseBlock", "ast.BaseInline"} {
		r.node[n] = true
	}
	// closure over field types (module struct types only, not nodes)
	for len(work) > 0 {
		t := work[len(work)-1]
		work = work[:len(work)-1]
		s := structOf(t)
		if s == nil {
			continue
		}
		for i := 0; i < s.NumFields(); i++ {
			ft := s.Field(i).Type()
			for {
				if p, ok := ft.Underlying().(*types.Pointer); ok {
					ft = p.Elem()
					continue
				}
				break
			}
			nt, ok := ft.(*types.Named)
			if !ok || nt.Obj().Pkg() == nil || !strings.HasPrefix(nt.Obj().Pkg().Path(), modPath) {
				continue
			}
			if structOf(nt) == nil || r.node[typeName(nt)] || r.single[typeName(nt)] {
				continue
			}
			r.single[typeName(nt)] = true
			work = append(work, nt)
		}
	}
	P.regionsCache = r
	return r
}

// addressTaken: functions used as values (candidates for dynamic calls).
func (P *Program) addressTaken() []*ssa.Function {
	if P.addrTakenCache != nil {
		return P.addrTakenCache
	}
	seen := map[*ssa.Function]bool{}
	for _, fn := range P.allFuncs {
		for _, b := range fn.Blocks {
			for _, in := range b.Instrs {
				if mc, ok := in.(*ssa.MakeClosure); ok {
					if f, ok := mc.Fn.(*ssa.Function); ok {
						seen[f] = true
					}
				}
				call, isCall := in.(ssa.CallInstruction)
				for _, op := range in.Operands(nil) {
					f, ok := (*op).(*ssa.Function)
					if !ok {
						continue
					}
					if isCall && call.Common().Value == f {
						// callee position only counts if it also appears among the arguments
						used := false
						for _, a := range call.Common().Args {
							if a == f {
								used = true
							}
						}
						if !used {
							continue
						}
					}
					seen[f] = true
				}
			}
		}
	}
	// method values registered through reg.Register(kind, r.renderX) are bound closures: MakeClosure of $bound wrappers
	var out []*ssa.Function
	for f := range seen {
		out = append(out, f)
	}
	sort.Slice(out, func(i, j int) bool { return out[i].String() < out[j].String() })
	P.addrTakenCache = out
	return out
}

func (P *Program) reachableFrom(roots []*ssa.Function) map[*ssa.Function]bool {
	seen := map[*ssa.Function]bool{}
	P.via = map[*ssa.Function]*ssa.Function{}
	var work []*ssa.Function
	var cur *ssa.Function
	push := func(f *ssa.Function) {
		if f == nil || seen[f] {
			return
		}
		if isOnceClosure(f) {
			return // one-time initialisation is not part of the steady-state frame (see once-discipline)
		}
		seen[f] = true
		P.via[f] = cur
		work = append(work, f)
	}
	for _, r := range roots {
		push(r)
	}
	taken := P.addressTaken()
	for len(work) > 0 {
		fn := work[len(work)-1]
		work = work[:len(work)-1]
		cur = fn
		if fn.Blocks == nil {
			continue
		}
		inModule := false
		root := fn
		for root.Parent() != nil {
			root = root.Parent()
		}
		if root.Pkg != nil && strings.HasPrefix(root.Pkg.Pkg.Path(), modPath) {
			inModule = true
		}
		if fn.Synthetic != "" && strings.Contains(fn.Synthetic, "bound method wrapper") {
			inModule = true
		}
		if !inModule && fn.Synthetic == "" {
			continue // library code: its callbacks into the module are closures created (and found) in module code
		}
		for _, b := range fn.Blocks {
			for _, in := range b.Instrs {
				switch x := in.(type) {
				case *ssa.MakeClosure:
					if f, ok := x.Fn.(*ssa.Function); ok {
						push(f)
					}
				case ssa.CallInstruction:
					cc := x.Common()
					if cc.IsInvoke() {
						for _, f := range P.implementations(cc) {
							push(f)
						}
						continue
					}
					switch v := cc.Value.(type) {
					case *ssa.Function:
						push(v)
					case *ssa.Builtin:
					case *ssa.MakeClosure:
						if f, ok := v.Fn.(*ssa.Function); ok {
							push(f)
						}
					default:
						// dynamic call: every address-taken function with the same signature
						sig, _ := cc.Value.Type().Underlying().(*types.Signature)
						for _, f := range taken {
							if sig != nil && types.Identical(stripRecv(f.Signature), sig) {
								push(f)
							}
						}
					}
				}
			}
		}
	}
	return seen
}

func stripRecv(s *types.Signature) *types.Signature {
	return types.NewSignatureType(nil, nil, nil, s.Params(), s.Results(), s.Variadic())
}

// isOnceClosure: fn is a closure whose only use is as the argument of (*sync.Once).Do.
func isOnceClosure(fn *ssa.Function) bool {
	p := fn.Parent()
	if p == nil {
		return false
	}
	for _, b := range p.Blocks {
		for _, in := range b.Instrs {
			c, ok := in.(*ssa.Call)
			if !ok {
				continue
			}
			callee, ok := c.Common().Value.(*ssa.Function)
			if !ok || callee.Name() != "Do" || callee.Pkg == nil || callee.Pkg.Pkg.Path() != "sync" {
				continue
			}
			for _, a := range c.Common().Args {
				if mc, ok := a.(*ssa.MakeClosure); ok && mc.Fn == fn {
					return true
				}
				if f, ok := a.(*ssa.Function); ok && f == fn { // a literal without free variables
					return true
				}
			}
		}
	}
	return false
}

func (P *Program) findFunc(display string) *ssa.Function {
	for _, f := range P.allFuncs {
		if fnDisplayName(f) == display {
			return f
		}
	}
	return nil
}

// ownerOfStore: the named struct type whose field is written by a store through addr ("" if none),
// whether the written object was allocated by the storing function itself, and a global if one is written.
func ownerOfStore(addr ssa.Value) (owner string, field string, fresh bool, gl *ssa.Global) {
	v := addr
	first := true
	for {
		switch x := v.(type) {
		case *ssa.FieldAddr:
			if first {
				st := deref(x.X.Type())
				owner = typeName(st)
				if s := structOf(st); s != nil {
					field = s.Field(x.Field).Name()
				}
				first = false
			}
			v = x.X
		case *ssa.IndexAddr:
			v = x.X
		case *ssa.Alloc:
			return owner, field, true, nil
		case *ssa.Global:
			return owner, field, false, x
		case *ssa.UnOp: // load of a pointer held in a local: look through single-store locals
			if a, ok := x.X.(*ssa.Alloc); ok {
				var st *ssa.Store
				n := 0
				for _, r := range *a.Referrers() {
					if s, ok := r.(*ssa.Store); ok && s.Addr == a {
						st = s
						n++
					}
				}
				if n == 1 {
					v = st.Val
					continue
				}
			}
			return owner, field, false, nil
		default:
			return owner, field, false, nil
		}
	}
}

// ---- effect summaries ----
// An effect is a write to a location of region R ("G", "S", "T") whose object is identified relative to the
// function: a parameter (index >= 0), or -1 = some object the function did not allocate itself.
type effect struct {
	region string
	target int    // parameter index, or -1
	what   string // e.g. "ast.BaseNode.attributes"
	pos    string
	via    string // callee chain
}

type rootKind int

const (
	rkFresh rootKind = iota
	rkParam
	rkGlobal
	rkUnknown
)

// rootOfValue traces a pointer / interface value back to where the object comes from.
func (P *Program) rootOfValue(v ssa.Value, fresh map[*ssa.Function]bool, depth int) (rootKind, int, *ssa.Global) {
	for i := 0; i < 12; i++ {
		switch x := v.(type) {
		case *ssa.Alloc:
			// a local that holds a pointer: look through its single store; otherwise the alloc IS the object
			if _, isPtrLike := deref(x.Type()).Underlying().(*types.Pointer); isPtrLike || types.IsInterface(deref(x.Type())) {
				var st *ssa.Store
				n := 0
				for _, r := range *x.Referrers() {
					if s, ok := r.(*ssa.Store); ok && s.Addr == x {
						st = s
						n++
					}
				}
				if n == 1 {
					v = st.Val
					continue
				}
				if n > 1 {
					// several stores: fresh only if all are
					for _, r := range *x.Referrers() {
						if s, ok := r.(*ssa.Store); ok && s.Addr == x {
							if k, _, _ := P.rootOfValue(s.Val, fresh, depth+1); k != rkFresh {
								return rkUnknown, -1, nil
							}
						}
					}
					return rkFresh, -1, nil
				}
			}
			return rkFresh, -1, nil
		case *ssa.Parameter:
			for idx, p := range x.Parent().Params {
				if p == x {
					return rkParam, idx, nil
				}
			}
			return rkUnknown, -1, nil
		case *ssa.Global:
			return rkGlobal, -1, x
		case *ssa.FieldAddr:
			v = x.X
		case *ssa.IndexAddr:
			v = x.X
		case *ssa.UnOp:
			if a, ok := x.X.(*ssa.Alloc); ok {
				v = a
				continue
			}
			return rkUnknown, -1, nil // loaded from the heap
		case *ssa.MakeInterface:
			v = x.X
		case *ssa.ChangeInterface:
			v = x.X
		case *ssa.ChangeType:
			v = x.X
		case *ssa.TypeAssert:
			v = x.X
		case *ssa.Extract:
			v = x.Tuple
		case *ssa.Call:
			if f, ok := x.Common().Value.(*ssa.Function); ok && fresh[f] {
				return rkFresh, -1, nil
			}
			return rkUnknown, -1, nil
		case *ssa.MakeSlice, *ssa.MakeMap, *ssa.MakeClosure:
			return rkFresh, -1, nil
		default:
			return rkUnknown, -1, nil
		}
	}
	return rkUnknown, -1, nil
}

// returnsFresh: every value the function returns is an object it allocated (transitively).
func (P *Program) computeReturnsFresh(fns []*ssa.Function) map[*ssa.Function]bool {
	fresh := map[*ssa.Function]bool{}
	for changed := true; changed; {
		changed = false
		for _, fn := range fns {
			if fresh[fn] || fn.Blocks == nil || fn.Signature.Results().Len() != 1 {
				continue
			}
			ok := true
			for _, b := range fn.Blocks {
				for _, in := range b.Instrs {
					if r, isR := in.(*ssa.Return); isR {
						if k, _, _ := P.rootOfValue(r.Results[0], fresh, 0); k != rkFresh {
							ok = false
						}
					}
				}
			}
			if ok {
				fresh[fn] = true
				changed = true
			}
		}
	}
	return fresh
}

func regionOf(reg *regions, owner string, which string) string {
	switch {
	case reg.single[owner]:
		return "S"
	case reg.node[owner]:
		return "T"
	}
	return ""
}

func scanFrame(P *Program, which string) []*Obl {
	reg := P.computeRegions()
	rootName := "parser.(*parser).Parse"
	if which == "render" {
		rootName = "renderer.(*renderer).Render"
	}
	root := P.findFunc(rootName)
	if root == nil {
		return []*Obl{scanObl(which+"-frame", false, rootName+" not found")}
	}
	reach := P.reachableFrom([]*ssa.Function{root})
	var fns []*ssa.Function
	for f := range reach {
		r := f
		for r.Parent() != nil {
			r = r.Parent()
		}
		inMod := r.Pkg != nil && strings.HasPrefix(r.Pkg.Pkg.Path(), modPath)
		if f.Synthetic != "" && strings.Contains(f.Synthetic, "bound method wrapper") {
			inMod = true
		}
		if inMod && f.Blocks != nil {
			fns = append(fns, f)
		}
	}
	sort.Slice(fns, func(i, j int) bool { return fns[i].String() < fns[j].String() })
	fresh := P.computeReturnsFresh(fns)
	eff := map[*ssa.Function]map[string]effect{}
	add := func(fn *ssa.Function, e effect) bool {
		m := eff[fn]
		if m == nil {
			m = map[string]effect{}
			eff[fn] = m
		}
		key := fmt.Sprintf("%s|%d|%s", e.region, e.target, e.what)
		if _, ok := m[key]; ok {
			return false
		}
		m[key] = e
		return true
	}
	nWrites := 0
	// direct effects
	for _, fn := range fns {
		for _, b := range fn.Blocks {
			for _, in := range b.Instrs {
				var addr ssa.Value
				kind := "store"
				switch x := in.(type) {
				case *ssa.Store:
					addr = x.Addr
					if _, isLocal := addr.(*ssa.Alloc); isLocal {
						continue
					}
				case *ssa.MapUpdate:
					kind = "map update"
					u, ok := x.Map.(*ssa.UnOp)
					if !ok {
						continue
					}
					addr = u.X
				default:
					continue
				}
				nWrites++
				owner, field, _, _ := ownerOfStore(addr)
				k, idx, gl := P.rootOfValue(addr, fresh, 0)
				pos := P.fset.Position(in.Pos()).String()
				if k == rkFresh {
					continue
				}
				if k == rkGlobal && !strings.HasPrefix(gl.Name(), "init$") {
					add(fn, effect{region: "G", target: -1, what: gl.Pkg.Pkg.Name() + "." + gl.Name(), pos: pos, via: kind})
					continue
				}
				r := regionOf(reg, owner, which)
				if r == "" {
					continue
				}
				t := -1
				if k == rkParam {
					t = idx
				}
				add(fn, effect{region: r, target: t, what: owner + "." + field, pos: pos, via: kind})
			}
		}
	}
	// synchronisation primitives held in package variables (sync.Pool, sync.Map, sync.Mutex, atomics ...) are shared
	// mutable state: using one - other than running a sync.Once, which the once-discipline scan decides - is a write to G
	for _, fn := range fns {
		for _, b := range fn.Blocks {
			for _, in := range b.Instrs {
				ci, ok := in.(ssa.CallInstruction)
				if !ok {
					continue
				}
				cc := ci.Common()
				callee, ok := cc.Value.(*ssa.Function)
				if !ok || callee.Pkg == nil {
					continue
				}
				pp := callee.Pkg.Pkg.Path()
				if pp != "sync" && pp != "sync/atomic" {
					continue
				}
				if pp == "sync" && callee.Name() == "Do" {
					continue
				}
				for _, a := range cc.Args {
					if _, isPtr := a.Type().Underlying().(*types.Pointer); !isPtr {
						continue
					}
					k, _, gl := P.rootOfValue(a, fresh, 0)
					if k == rkGlobal && gl != nil && gl.Pkg != nil && strings.HasPrefix(gl.Pkg.Pkg.Path(), modPath) {
						add(fn, effect{region: "G", target: -1, what: gl.Pkg.Pkg.Name() + "." + gl.Name(), pos: P.fset.Position(in.Pos()).String(), via: "call of " + callee.String() + " on a package variable"})
					}
				}
			}
		}
	}
	// propagate through calls
	calleesOf := func(cc *ssa.CallCommon) []*ssa.Function {
		if cc.IsInvoke() {
			return P.implementations(cc)
		}
		switch v := cc.Value.(type) {
		case *ssa.Function:
			return []*ssa.Function{v}
		case *ssa.MakeClosure:
			if f, ok := v.Fn.(*ssa.Function); ok {
				return []*ssa.Function{f}
			}
		case *ssa.Builtin:
			return nil
		default:
			if funcParamOf(cc.Value) != nil {
				return nil // a function handed in by the caller: accounted for where the closure is created
			}
			sig, _ := cc.Value.Type().Underlying().(*types.Signature)
			var out []*ssa.Function
			for _, f := range P.addressTaken() {
				if sig != nil && types.Identical(stripRecv(f.Signature), sig) && reach[f] {
					out = append(out, f)
				}
			}
			return out
		}
		return nil
	}
	for changed := true; changed; {
		changed = false
		for _, fn := range fns {
			for _, b := range fn.Blocks {
				for _, in := range b.Instrs {
					ci, ok := in.(ssa.CallInstruction)
					if !ok {
						continue
					}
					cc := ci.Common()
					// functions handed to the callee as arguments (walkers, comparison closures): the callee may run
					// them on objects we cannot name, so their effects count for this function with an unknown target
					for _, a := range cc.Args {
						var fa *ssa.Function
						av := a
						for k := 0; k < 3; k++ {
							if ct, ok := av.(*ssa.ChangeType); ok {
								av = ct.X
							}
						}
						switch y := av.(type) {
						case *ssa.MakeClosure:
							fa, _ = y.Fn.(*ssa.Function)
						case *ssa.Function:
							fa = y
						}
						if fa == nil {
							continue
						}
						for _, e := range eff[fa] {
							ne := e
							ne.target = -1
							ne.via = fnDisplayName(fa) + " (passed as argument) <- " + e.via
							if len(ne.via) > 300 {
								ne.via = ne.via[:300]
							}
							if add(fn, ne) {
								changed = true
							}
						}
					}
					for _, callee := range calleesOf(cc) {
						for _, e := range eff[callee] {
							ne := e
							ne.via = fnDisplayName(callee) + " <- " + e.via
							if len(ne.via) > 300 {
								ne.via = ne.via[:300]
							}
							if e.target >= 0 {
								// which value of fn is passed for that parameter?
								var arg ssa.Value
								if cc.IsInvoke() {
									if e.target == 0 {
										arg = cc.Value
									} else if e.target-1 < len(cc.Args) {
										arg = cc.Args[e.target-1]
									}
								} else if e.target < len(cc.Args) {
									arg = cc.Args[e.target]
								} else if mc, isMC := cc.Value.(*ssa.MakeClosure); isMC {
									_ = mc
								}
								if arg == nil {
									ne.target = -1
								} else {
									k, idx, _ := P.rootOfValue(arg, fresh, 0)
									switch k {
									case rkFresh:
										continue
									case rkParam:
										ne.target = idx
									default:
										ne.target = -1
									}
								}
							}
							if add(fn, ne) {
								changed = true
							}
						}
					}
				}
			}
		}
	}
	if dbg := os.Getenv("GVC_EFFECTS"); dbg != "" {
		for _, fn := range fns {
			if strings.Contains(fnDisplayName(fn)+fn.String(), dbg) {
				for k, e := range eff[fn] {
					fmt.Printf("EFFECT %s : %s (%s)\n", fn.String(), k, e.via)
				}
				if len(eff[fn]) == 0 {
					fmt.Printf("EFFECT %s : none\n", fn.String())
				}
			}
		}
	}
	var out []*Obl
	// the frame: the root must have no effect on G or S, and (render) none on T
	var keys []string
	for k := range eff[root] {
		keys = append(keys, k)
	}
	sort.Strings(keys)
	for _, k := range keys {
		e := eff[root][k]
		if e.region == "T" && which != "render" {
			continue
		}
		if declaredIdempotentCache[e.what] {
			continue
		}
		where := "some object it did not allocate"
		if e.target >= 0 && e.target < len(root.Params) {
			where = "the object passed as " + root.Params[e.target].Name()
		}
		out = append(out, scanObl(fmt.Sprintf("%s-frame:%s:%s", which, map[string]string{"G": "package variable", "S": "configured singleton", "T": "AST node"}[e.region], e.what), false,
			fmt.Sprintf("%s can write %s of %s; first site %s; via %s", rootName, e.what, where, e.pos, e.via)))
	}
	out = append(out, scanObl(fmt.Sprintf("%s-frame (%d functions reachable from %s, %d heap writes summarised)", which, len(fns), rootName, nWrites), true, ""))
	return out
}

// Declared exceptions of the render frame: idempotent lazily filled caches on nodes.  Each is justified in
// DESIGN.md: the cached value is a function of the node's own immutable data and the source, so a second
// render reads the same bytes.
var declaredIdempotentCache = map[string]bool{
	"ast.FencedCodeBlock.language": true, // Language(): cached slice of the info string
	"ast.BaseBlock.lines":          true, // Lines(): allocates the empty line list on first use
}

// scanOnceDiscipline (C07): lazily built shared state is written only inside the closure handed to
// sync.Once.Do, and read only after that Do call:
//  - every store to a field of *parser.parser / *renderer.renderer outside constructors/option setters is in a Once closure;
//  - every load or store of util._html5entitiesMap outside the Once closure is dominated by the call that runs the Once.
func scanOnceDiscipline(P *Program) []*Obl {
	var out []*Obl
	n := 0
	for _, fn := range P.allFuncs {
		if fn.Blocks == nil {
			continue
		}
		for _, b := range fn.Blocks {
			for ii, in := range b.Instrs {
				var gl *ssa.Global
				switch x := in.(type) {
				case *ssa.UnOp:
					gl, _ = x.X.(*ssa.Global)
				case *ssa.Store:
					gl, _ = x.Addr.(*ssa.Global)
				}
				if gl == nil || gl.Name() != "_html5entitiesMap" {
					continue
				}
				n++
				if isOnceClosure(fn) || (fn.Name() == "init" && fn.Parent() == nil) {
					continue
				}
				// must be dominated by a call to buildHTML5Entities (which runs the Once)
				ok := false
				for _, b2 := range fn.Blocks {
					for jj, in2 := range b2.Instrs {
						c, isC := in2.(*ssa.Call)
						if !isC {
							continue
						}
						if f, isF := c.Common().Value.(*ssa.Function); isF && (f.Name() == "buildHTML5Entities" || (f.Name() == "Do" && f.Pkg != nil && f.Pkg.Pkg.Path() == "sync")) {
							if (b2 == b && jj < ii) || (b2 != b && b2.Dominates(b)) {
								ok = true
							}
						}
					}
				}
				if !ok {
					out = append(out, scanObl("once-discipline:"+fnDisplayName(fn)+":_html5entitiesMap", false,
						fmt.Sprintf("%s accesses util._html5entitiesMap at %s without a preceding sync.Once-guarded build", fnDisplayName(fn), P.fset.Position(in.Pos()))))
				}
			}
		}
	}
	out = append(out, scanObl(fmt.Sprintf("once-discipline (%d accesses to lazily built shared state checked)", n), true, ""))
	return out
}
