package main

import (
	"fmt"
	"go/constant"
	"go/token"
	"go/types"
	"strings"

	"golang.org/x/tools/go/ssa"
)

// ---------- escape analysis for Allocs ----------

func allocIsVariable(a *ssa.Alloc) bool {
	if a.Heap {
		// `new T` / &T{} : heap unless only used locally; keep simple: struct/array temporaries that do not escape can still be variables
	}
	return refsLocalOnly(a, a)
}

func refsLocalOnly(v ssa.Value, root *ssa.Alloc) bool {
	refs := v.Referrers()
	if refs == nil {
		return false
	}
	for _, r := range *refs {
		switch x := r.(type) {
		case *ssa.Store:
			if x.Val == v {
				return false
			}
		case *ssa.UnOp:
			if x.Op != token.MUL {
				return false
			}
		case *ssa.FieldAddr:
			if !refsLocalOnly(x, root) {
				return false
			}
		case *ssa.IndexAddr:
			if x.X != v {
				return false
			}
			if _, isArr := deref(v.Type()).Underlying().(*types.Array); !isArr {
				return false
			}
			if !refsLocalOnly(x, root) {
				return false
			}
		case *ssa.DebugRef:
		case *ssa.MakeClosure:
			// captured by a closure that only reads it: still a plain variable of this function
			if !closureOnlyReads(x, v) {
				return false
			}
		default:
			return false
		}
	}
	return true
}

// closureOnlyReads: every free variable of the closure bound to v is only loaded (never stored to,
// never passed on) inside the closure.
func closureOnlyReads(mc *ssa.MakeClosure, v ssa.Value) bool {
	fn, ok := mc.Fn.(*ssa.Function)
	if !ok {
		return false
	}
	for i, b := range mc.Bindings {
		if b != v {
			continue
		}
		if i >= len(fn.FreeVars) {
			return false
		}
		refs := fn.FreeVars[i].Referrers()
		if refs == nil {
			return false
		}
		for _, r := range *refs {
			switch y := r.(type) {
			case *ssa.UnOp:
				if y.Op != token.MUL {
					return false
				}
			case *ssa.DebugRef:
			default:
				return false
			}
		}
	}
	return true
}

func deref(t types.Type) types.Type {
	if p, ok := t.Underlying().(*types.Pointer); ok {
		return p.Elem()
	}
	return t
}

// ---------- value lookup ----------

func (g *Gen) val(st *State, v ssa.Value) *Val {
	switch x := v.(type) {
	case *ssa.Const:
		return g.constVal(x)
	case *ssa.Global:
		return g.globalPtr(x)
	case *ssa.Function:
		return &Val{K: KOpaque, T: x.Type(), S: smtInt(int64(g.P.tagOf("fn|" + x.String())))}
	case *ssa.Builtin:
		unsup("builtin as value")
	case *ssa.Parameter:
		if r, ok := g.vals[v]; ok {
			return r
		}
	case *ssa.FreeVar:
		if r, ok := g.vals[v]; ok {
			return r
		}
	}
	if r, ok := g.vals[v]; ok {
		return r
	}
	unsup("value %s (%T) not defined", v.Name(), v)
	return nil
}

func (g *Gen) constVal(c *ssa.Const) *Val {
	t := c.Type()
	if c.Value == nil {
		return g.zeroVal(t)
	}
	switch kindOf(t) {
	case KInt:
		if i, ok := constant.Int64Val(constant.ToInt(c.Value)); ok {
			return &Val{K: KInt, T: t, S: smtInt(i)}
		}
		if u, ok := constant.Uint64Val(constant.ToInt(c.Value)); ok {
			return &Val{K: KInt, T: t, S: fmt.Sprintf("%d", u)}
		}
	case KBool:
		if constant.BoolVal(c.Value) {
			return &Val{K: KBool, T: t, S: "true"}
		}
		return &Val{K: KBool, T: t, S: "false"}
	case KString:
		v := g.strConst(constant.StringVal(c.Value))
		v.T = t
		return v
	case KOpaque:
		return &Val{K: KOpaque, T: t, S: g.fresh("constopaque", "Int")}
	}
	unsup("constant %s of type %s", c, t)
	return nil
}

func (g *Gen) globalPtr(gl *ssa.Global) *Val {
	et := deref(gl.Type())
	if tb := g.P.tableOf(gl); tb != nil {
		g.P.emitTable(g, tb)
		return &Val{K: KArrPtr, T: gl.Type(), Arr: "tbl", HName: tb.sym, N: tb.n}
	}
	name := sym("G|" + gl.Pkg.Pkg.Name() + "." + gl.Name())
	if !g.declared[name] {
		g.declared[name] = true
		g.emit(fmt.Sprintf("(define-fun %s () Int %d)", name, 100+g.P.tagOf("G|"+gl.Pkg.Pkg.Path()+"."+gl.Name())))
	}
	if kindOf(et) == KArray {
		at := et.Underlying().(*types.Array)
		return &Val{K: KArrPtr, T: gl.Type(), Arr: name, N: at.Len()}
	}
	return &Val{K: KPtr, T: gl.Type(), S: name}
}

// ---------- loads and stores through pointer values ----------

func (g *Gen) varGet(root *Val, path []int) *Val {
	v := root
	for _, i := range path {
		if v.K != KStruct {
			unsup("varGet: not a struct")
		}
		v = v.Flds[i]
	}
	return v
}

func varSet(root *Val, path []int, nv *Val) *Val {
	if len(path) == 0 {
		return nv
	}
	c := *root
	c.Flds = append([]*Val(nil), root.Flds...)
	c.Flds[path[0]] = varSet(root.Flds[path[0]], path[1:], nv)
	return &c
}

func (g *Gen) load(st *State, p *Val, pos token.Pos, text string) *Val {
	switch p.K {
	case KVarPtr:
		root, ok := st.vars[p.Alloc]
		if !ok {
			// variable declared in a block not yet executed on this path (e.g. loop-carried); use zero
			root = g.zeroVal(deref(p.Alloc.Type()))
		}
		v := g.varGet(root, p.Path)
		if p.VIdx != "" {
			at := v.T.Underlying().(*types.Array)
			return &Val{K: kindOf(at.Elem()), T: at.Elem(), S: sel(v.S, p.VIdx)}
		}
		return v
	case KPtr:
		g.nilCheck(st, p, pos, text)
		return g.loadPointee(st, deref(p.T), p.S)
	case KFieldPtr:
		v := g.loadAt(st, p.HName, deref(p.T), p.Base)
		g.typeFacts(st, v, st.reach)
		return v
	case KElemPtr:
		et := deref(p.T)
		if p.Arr == "tbl" {
			return &Val{K: kindOf(et), T: et, S: "(" + p.HName + " " + p.Idx + ")"}
		}
		if kindOf(et) == KInt && intBits(et) == 8 {
			v := &Val{K: KInt, T: et, S: g.byteAt(st, et, p.Arr, p.Idx)}
			g.typeFacts(st, v, st.reach)
			return v
		}
		v := g.loadElem(st, et, p.Arr, p.Idx)
		g.typeFacts(st, v, st.reach)
		return v
	case KArrPtr:
		at := deref(p.T).Underlying().(*types.Array)
		if p.Arr == "tbl" {
			unsup("whole-table load")
		}
		if !isScalarKind(kindOf(at.Elem())) {
			// the value of a whole array of aggregates is only needed for its (constant) length, e.g. `for i := range arr`;
			// any other use of this term is not valid SMT and fails its obligation rather than passing it
			return &Val{K: KArray, T: deref(p.T), S: "opaque!aggregate!array"}
		}
		return &Val{K: KArray, T: deref(p.T), S: sel(g.memSym(st, at.Elem(), "", kindOf(at.Elem())), p.Arr)}
	}
	unsup("load through value kind %d", p.K)
	return nil
}

func (g *Gen) store(st *State, p *Val, v *Val, pos token.Pos, text string) {
	switch p.K {
	case KVarPtr:
		root, ok := st.vars[p.Alloc]
		if !ok {
			root = g.zeroVal(deref(p.Alloc.Type()))
		}
		if p.VIdx != "" {
			arrv := g.varGet(root, p.Path)
			na := *arrv
			na.S = sto(arrv.S, p.VIdx, v.S)
			st.vars[p.Alloc] = varSet(root, p.Path, &na)
			return
		}
		tgt := g.varGet(root, p.Path)
		nv := v
		if tgt.T != nil && v.K != tgt.K {
			nv = g.coerce(v, tgt.T)
		}
		st.vars[p.Alloc] = varSet(root, p.Path, nv)
	case KPtr:
		g.nilCheck(st, p, pos, text)
		g.frameStore(st, p, pos, text)
		g.storePointee(st, deref(p.T), p.S, v)
	case KFieldPtr:
		g.frameStore(st, p, pos, text)
		g.storeAt(st, p.HName, deref(p.T), p.Base, v)
	case KElemPtr:
		if p.Arr == "tbl" {
			if g.isPkgInit() {
				return // the table's contents are read from this very initialiser's literal
			}
			unsup("store into constant table")
		}
		g.frameStore(st, p, pos, text)
		if isByteElem(deref(p.T)) {
			g.assume(st.reach, "(<= 0 "+p.Arr+")")
		} // string-constant memory is never written (a fault; excluded by C12)
		g.storeElem(st, deref(p.T), p.Arr, p.Idx, v)
	case KArrPtr:
		at := deref(p.T).Underlying().(*types.Array)
		if p.Arr == "tbl" {
			if g.isPkgInit() {
				return
			}
			unsup("store into constant table")
		}
		g.frameStore(st, p, pos, text)
		old, nw := g.setMem(st, at.Elem(), "", kindOf(at.Elem()))
		g.emit("(assert " + eq(nw, sto(old, p.Arr, v.S)) + ")")
	default:
		unsup("store through value kind %d", p.K)
	}
}

func (g *Gen) nilCheck(st *State, p *Val, pos token.Pos, text string) {
	if p.K != KPtr && p.K != KIface {
		return
	}
	if isConstTerm(p.S) && p.S != "0" {
		return
	}
	if strings.HasPrefix(p.S, "|G!") || strings.HasPrefix(p.S, "(|sub!") || strings.HasPrefix(p.S, "(|ea!") || g.knownNonNil[p.S] {
		return
	}
	// an earlier obligation for the same term covers this one only if it sits in a dominating block
	var cur *ssa.BasicBlock
	if g.curInstr != nil {
		cur = g.curInstr.Block()
	}
	for _, b := range g.checkedNonNil[p.S] {
		if cur != nil && (b == cur || b.Dominates(cur)) {
			return
		}
	}
	g.oblige("nil", text, pos, st.reach, not(eq(p.S, "0")))
	if cur != nil {
		g.checkedNonNil[p.S] = append(g.checkedNonNil[p.S], cur)
	}
}

// argsNonNil: default precondition of the safety sweep at a call of an in-repo function or interface
// method: pointer/interface arguments are non-nil unless the callee's contract declares them nilable.
func (g *Gen) argsNonNil(st *State, c *ssa.Call, sp *FuncSpec, fn *ssa.Function, args []*Val, calleeName string) {
	if g.hooks == nil || !g.hooks.paramsNonNil {
		return
	}
	cc := c.Common()
	inRepo := false
	if fn != nil {
		root := fn
		for root.Parent() != nil {
			root = root.Parent()
		}
		inRepo = root.Pkg != nil && strings.HasPrefix(root.Pkg.Pkg.Path(), modPath) && fn.Parent() == nil
	} else if cc.IsInvoke() {
		if n, ok := cc.Value.Type().(*types.Named); ok && n.Obj().Pkg() != nil {
			inRepo = strings.HasPrefix(n.Obj().Pkg().Path(), modPath)
		}
	}
	if !inRepo {
		return
	}
	var names []string
	if sp != nil {
		names = g.P.paramNames(sp, fn, cc)
	} else if fn != nil {
		for _, p := range fn.Params {
			names = append(names, p.Name())
		}
	} else {
		names = append(names, "recv")
		ps := cc.Signature().Params()
		for i := 0; i < ps.Len(); i++ {
			names = append(names, ps.At(i).Name())
		}
	}
	for i, a := range args {
		if a == nil || (a.K != KPtr && a.K != KIface) {
			continue
		}
		if cc.IsInvoke() && i == 0 {
			continue // the receiver of an interface call has its own nil obligation
		}
		pn := fmt.Sprintf("arg%d", i)
		if i < len(names) && names[i] != "" {
			pn = names[i]
		}
		if sp != nil && sp.Nilable[pn] {
			continue
		}
		if (isConstTerm(a.S) && a.S != "0") || strings.HasPrefix(a.S, "|G!") || strings.HasPrefix(a.S, "(|sub!") || strings.HasPrefix(a.S, "(|ea!") || g.knownNonNil[a.S] {
			continue
		}
		g.oblige("pre@call", calleeName+":nonnil "+pn, c.Pos(), st.reach, not(eq(a.S, "0")))
	}
}

// frameStore is a hook for write-frame obligations (C12); filled by frames.go
func (g *Gen) frameStore(st *State, p *Val, pos token.Pos, text string) {
	g.frameCheckStore(st, p, pos, text)
	if g.onStore != nil {
		g.onStore(g, st, p, pos, text)
	}
}

// ---------- instruction translation ----------

func (g *Gen) instr(st *State, in ssa.Instruction) {
	g.keySt = st
	switch x := in.(type) {
	case *ssa.DebugRef, *ssa.RunDefers:
		return
	case *ssa.Alloc:
		g.doAlloc(st, x)
	case *ssa.Store:
		p := g.val(st, x.Addr)
		v := g.val(st, x.Val)
		g.store(st, p, v, x.Pos(), g.textAt(x.Pos()))
	case *ssa.UnOp:
		g.vals[x] = g.doUnOp(st, x)
	case *ssa.BinOp:
		g.vals[x] = g.doBinOp(st, x)
	case *ssa.FieldAddr:
		g.vals[x] = g.doFieldAddr(st, x)
	case *ssa.Field:
		v := g.val(st, x.X)
		if v.K != KStruct {
			unsup("Field on non-struct value")
		}
		g.vals[x] = v.Flds[x.Field]
	case *ssa.IndexAddr:
		g.vals[x] = g.doIndexAddr(st, x)
	case *ssa.Index:
		g.vals[x] = g.doIndex(st, x)
	case *ssa.Lookup:
		g.vals[x] = g.doLookup(st, x)
	case *ssa.Slice:
		g.vals[x] = g.doSlice(st, x)
	case *ssa.MakeSlice:
		g.vals[x] = g.doMakeSlice(st, x)
	case *ssa.MakeMap:
		id := g.newAddr(st, "map")
		mt := typeName(x.Type())
		has := "Map|" + mt + "|has"
		g.setHeapSort(has, "(Array Int (Array Int Bool))")
		g.assume("true", eq(sel(g.heapSym(st.heap, has), id), "((as const (Array Int Bool)) false)"))
		g.vals[x] = &Val{K: KOpaque, T: x.Type(), S: id}
	case *ssa.MapUpdate:
		g.doMapUpdate(st, x)
	case *ssa.MakeClosure:
		g.vals[x] = &Val{K: KOpaque, T: x.Type(), S: g.newAddr(st, "closure")}
	case *ssa.MakeInterface:
		g.vals[x] = g.doMakeInterface(st, x)
	case *ssa.ChangeInterface:
		v := *g.val(st, x.X)
		v.T = x.Type()
		g.vals[x] = &v
	case *ssa.ChangeType:
		v := *g.val(st, x.X)
		v.T = x.Type()
		g.vals[x] = &v
	case *ssa.Convert:
		g.vals[x] = g.doConvert(st, x)
	case *ssa.TypeAssert:
		g.vals[x] = g.doTypeAssert(st, x)
	case *ssa.Extract:
		t := g.val(st, x.Tuple)
		g.vals[x] = t.Flds[x.Index]
	case *ssa.Phi:
		// handled at block entry
	case *ssa.Call:
		g.vals[x] = g.doCall(st, x)
	case *ssa.Range:
		v := g.val(st, x.X)
		g.vals[x] = &Val{K: KOpaque, T: x.Type(), S: "0", Flds: []*Val{v}}
	case *ssa.Next:
		g.vals[x] = g.doNext(st, x)
	case *ssa.Panic:
		g.oblige("panic-unreachable", g.textAt(x.Pos()), x.Pos(), st.reach, "false")
	case *ssa.Return, *ssa.If, *ssa.Jump:
		// control handled by the driver
	default:
		unsup("instruction %T", in)
	}
}

func (g *Gen) doAlloc(st *State, a *ssa.Alloc) {
	et := deref(a.Type())
	if !g.escaping[a] {
		st.vars[a] = g.zeroVal(et)
		g.vals[a] = &Val{K: KVarPtr, T: a.Type(), Alloc: a}
		return
	}
	switch kindOf(et) {
	case KStruct:
		addr := g.newAddr(st, "new_"+a.Comment)
		g.storeStruct(st, et, addr, g.zeroVal(et))
		g.vals[a] = &Val{K: KPtr, T: a.Type(), S: addr}
		g.knownNonNil[addr] = true
	case KArray:
		at := et.Underlying().(*types.Array)
		arr := g.newArr(st, "newarr_"+a.Comment)
		if isScalarKind(kindOf(at.Elem())) {
			old, nw := g.setMem(st, at.Elem(), "", kindOf(at.Elem()))
			g.emit("(assert " + eq(nw, sto(old, arr, g.zeroVal(et).S)) + ")")
		} else if k := kindOf(at.Elem()); k == KSlice || k == KString {
			g.zeroArr(st, at.Elem(), arr) // a new array of slices / strings is all nil / empty
		}
		g.vals[a] = &Val{K: KArrPtr, T: a.Type(), Arr: arr, N: at.Len()}
	default:
		addr := g.newAddr(st, "cell_"+a.Comment)
		g.storeAt(st, cellName(et), et, addr, g.zeroVal(et))
		g.vals[a] = &Val{K: KPtr, T: a.Type(), S: addr}
		g.knownNonNil[addr] = true
	}
}

func (g *Gen) doUnOp(st *State, x *ssa.UnOp) *Val {
	if gl, ok := x.X.(*ssa.Global); ok && gl.Name() == "init$guard" && g.isPkgInit() {
		return &Val{K: KBool, T: x.Type(), S: "false"} // the runtime runs a package initialiser exactly once
	}
	v := g.val(st, x.X)
	switch x.Op {
	case token.MUL:
		return g.load(st, v, x.Pos(), g.textAt(x.Pos()))
	case token.NOT:
		return &Val{K: KBool, T: x.Type(), S: not(v.S)}
	case token.SUB:
		r := &Val{K: KInt, T: x.Type(), S: "(- " + v.S + ")"}
		return g.wrap(r)
	case token.XOR:
		if isUnsigned(x.Type()) {
			_, hi, _ := intRange(x.Type())
			return &Val{K: KInt, T: x.Type(), S: "(- " + hi + " " + v.S + ")"}
		}
		return &Val{K: KInt, T: x.Type(), S: "(- (- " + v.S + ") 1)"}
	}
	unsup("unary op %s", x.Op)
	return nil
}

// wrap applies modular semantics for unsigned narrow types.
func (g *Gen) wrap(v *Val) *Val {
	if v.K != KInt || v.T == nil || isConstTerm(v.S) {
		return v
	}
	if isUnsigned(v.T) {
		bits := intBits(v.T)
		m := "18446744073709551616"
		switch bits {
		case 8:
			m = "256"
		case 16:
			m = "65536"
		case 32:
			m = "4294967296"
		}
		c := *v
		c.S = "(mod " + v.S + " " + m + ")"
		return &c
	}
	return v
}

func pow2(k int64) string {
	r := int64(1)
	if k >= 62 {
		s := "1"
		for i := int64(0); i < k; i++ {
			s = "(* 2 " + s + ")"
		}
		return s
	}
	for i := int64(0); i < k; i++ {
		r *= 2
	}
	return fmt.Sprintf("%d", r)
}

func constInt(v ssa.Value) (int64, bool) {
	if c, ok := v.(*ssa.Const); ok && c.Value != nil && c.Value.Kind() == constant.Int {
		return constant.Int64Val(c.Value)
	}
	return 0, false
}

func (g *Gen) doBinOp(st *State, x *ssa.BinOp) *Val {
	a := g.val(st, x.X)
	b := g.val(st, x.Y)
	t := x.Type()
	switch x.Op {
	case token.EQL, token.NEQ:
		e := g.eqVal(a, b)
		if x.Op == token.NEQ {
			e = not(e)
		}
		return &Val{K: KBool, T: t, S: e}
	case token.LSS, token.LEQ, token.GTR, token.GEQ:
		if a.K == KString {
			return &Val{K: KBool, T: t, S: g.fresh("strcmp", "Bool")}
		}
		if a.K != KInt {
			return &Val{K: KBool, T: t, S: g.fresh("fcmp", "Bool")}
		}
		op := map[token.Token]string{token.LSS: "<", token.LEQ: "<=", token.GTR: ">", token.GEQ: ">="}[x.Op]
		return &Val{K: KBool, T: t, S: "(" + op + " " + a.S + " " + b.S + ")"}
	case token.LAND, token.AND:
		if a.K == KBool {
			return &Val{K: KBool, T: t, S: and(a.S, b.S)}
		}
	case token.LOR, token.OR:
		if a.K == KBool {
			return &Val{K: KBool, T: t, S: or(a.S, b.S)}
		}
	}
	if a.K == KString && x.Op == token.ADD {
		r := g.freshVal("strcat", t)
		g.assume("true", and(eq(r.Len, add(a.Len, b.Len)), "(> "+r.Arr+" 0)", eq(r.Off, "0")))
		return r
	}
	if a.K != KInt {
		// floats etc.
		return g.freshVal("opaqueop", t)
	}
	var s string
	switch x.Op {
	case token.ADD:
		s = "(+ " + a.S + " " + b.S + ")"
	case token.SUB:
		s = "(- " + a.S + " " + b.S + ")"
	case token.MUL:
		s = "(* " + a.S + " " + b.S + ")"
	case token.QUO:
		g.oblige("div", g.textAt(x.Pos()), x.Pos(), st.reach, not(eq(b.S, "0")))
		s = "(godiv " + a.S + " " + b.S + ")"
	case token.REM:
		g.oblige("div", g.textAt(x.Pos()), x.Pos(), st.reach, not(eq(b.S, "0")))
		s = "(gomod " + a.S + " " + b.S + ")"
	case token.AND:
		if c, ok := constInt(x.Y); ok && c >= 0 && (c+1)&c == 0 {
			s = "(mod " + a.S + " " + fmt.Sprintf("%d", c+1) + ")"
		} else if c, ok := constInt(x.X); ok && c >= 0 && (c+1)&c == 0 {
			s = "(mod " + b.S + " " + fmt.Sprintf("%d", c+1) + ")"
		} else if c, ok := constInt(x.Y); ok && c > 0 && c&(c-1) == 0 {
			// single bit test: (a / c) mod 2 * c
			s = fmt.Sprintf("(* %d (mod (div %s %d) 2))", c, a.S, c)
		} else {
			s = "(band " + a.S + " " + b.S + ")"
		}
	case token.OR:
		s = "(bor " + a.S + " " + b.S + ")"
	case token.XOR:
		s = "(bxor " + a.S + " " + b.S + ")"
	case token.AND_NOT:
		s = "(bandnot " + a.S + " " + b.S + ")"
	case token.SHL:
		if c, ok := constInt(x.Y); ok && c >= 0 && c < 64 {
			s = "(* " + a.S + " " + pow2(c) + ")"
		} else {
			s = "(shl " + a.S + " " + b.S + ")"
		}
	case token.SHR:
		if c, ok := constInt(x.Y); ok && c >= 0 && c < 64 {
			s = "(div " + a.S + " " + pow2(c) + ")"
		} else {
			s = "(shr " + a.S + " " + b.S + ")"
		}
	default:
		unsup("binary op %s", x.Op)
	}
	r := &Val{K: KInt, T: t, S: s}
	r = g.wrap(r)
	switch x.Op {
	case token.AND, token.OR, token.XOR, token.AND_NOT, token.SHL, token.SHR:
		if isUnsigned(t) {
			c := g.fresh("bits", "Int")
			g.emit("(assert " + eq(c, r.S) + ")")
			r = &Val{K: KInt, T: t, S: c}
			g.typeFacts(st, r, "true")
		}
	}
	return r
}

func (g *Gen) doFieldAddr(st *State, x *ssa.FieldAddr) *Val {
	p := g.val(st, x.X)
	stT := deref(x.X.Type())
	s := structOf(stT)
	f := s.Field(x.Field)
	switch p.K {
	case KVarPtr:
		if p.VIdx != "" {
			unsup("FieldAddr into array element of local")
		}
		np := *p
		np.Path = append(append([]int(nil), p.Path...), x.Field)
		np.T = x.Type()
		return &np
	case KPtr:
		g.nilCheck(st, p, x.Pos(), g.textAt(x.Pos()))
		switch kindOf(f.Type()) {
		case KStruct:
			return &Val{K: KPtr, T: x.Type(), S: g.subAddr(stT, f, p.S)}
		case KArray:
			at := f.Type().Underlying().(*types.Array)
			return &Val{K: KArrPtr, T: x.Type(), Arr: g.arrOf(stT, f, p.S), N: at.Len()}
		}
		return &Val{K: KFieldPtr, T: x.Type(), Base: p.S, HName: "H|" + typeName(stT) + "|" + f.Name()}
	}
	unsup("FieldAddr on value kind %d", p.K)
	return nil
}

func (g *Gen) boundsObl(st *State, kind, text string, pos token.Pos, conds ...string) {
	g.oblige(kind, text, pos, st.reach, and(conds...))
}

func (g *Gen) doIndexAddr(st *State, x *ssa.IndexAddr) *Val {
	b := g.val(st, x.X)
	i := g.val(st, x.Index)
	text := g.textAt(x.Pos())
	switch b.K {
	case KSlice:
		g.boundsObl(st, "idx", text, x.Pos(), "(<= 0 "+i.S+")", "(< "+i.S+" "+b.Len+")")
		et := b.T.Underlying().(*types.Slice).Elem()
		abs := add(b.Off, i.S)
		if kindOf(et) == KStruct {
			return &Val{K: KPtr, T: x.Type(), S: g.elemAddr(et, b.Arr, abs)}
		}
		if kindOf(et) == KArray {
			unsup("slice of arrays")
		}
		return &Val{K: KElemPtr, T: x.Type(), Arr: b.Arr, Idx: abs}
	case KArrPtr:
		et := deref(x.Type())
		idxT := x.Index.Type()
		need := true
		if lo, hi, ok := intRange(idxT); ok && lo == "0" {
			var hv int64
			fmt.Sscanf(hi, "%d", &hv)
			if hv < b.N && intBits(idxT) < 64 {
				need = false
			}
		}
		if c, ok := constInt(x.Index); ok && c >= 0 && c < b.N {
			need = false
		}
		if need {
			g.boundsObl(st, "idx", text, x.Pos(), "(<= 0 "+i.S+")", fmt.Sprintf("(< %s %d)", i.S, b.N))
		}
		if b.Arr == "tbl" {
			return &Val{K: KElemPtr, T: x.Type(), Arr: "tbl", HName: b.HName, Idx: i.S}
		}
		if kindOf(et) == KStruct {
			return &Val{K: KPtr, T: x.Type(), S: g.elemAddr(et, b.Arr, i.S)}
		}
		return &Val{K: KElemPtr, T: x.Type(), Arr: b.Arr, Idx: i.S}
	case KVarPtr:
		// local array variable
		at, ok := deref(b.T).Underlying().(*types.Array)
		if !ok {
			unsup("IndexAddr on local non-array")
		}
		if c, ok := constInt(x.Index); !(ok && c >= 0 && c < at.Len()) {
			g.boundsObl(st, "idx", text, x.Pos(), "(<= 0 "+i.S+")", fmt.Sprintf("(< %s %d)", i.S, at.Len()))
		}
		np := *b
		np.VIdx = i.S
		np.T = x.Type()
		return &np
	}
	unsup("IndexAddr on value kind %d", b.K)
	return nil
}

func (g *Gen) doIndex(st *State, x *ssa.Index) *Val {
	b := g.val(st, x.X)
	i := g.val(st, x.Index)
	switch b.K {
	case KArray:
		at := b.T.Underlying().(*types.Array)
		if c, ok := constInt(x.Index); !(ok && c >= 0 && c < at.Len()) {
			g.boundsObl(st, "idx", g.textAt(x.Pos()), x.Pos(), "(<= 0 "+i.S+")", fmt.Sprintf("(< %s %d)", i.S, at.Len()))
		}
		return &Val{K: kindOf(at.Elem()), T: at.Elem(), S: sel(b.S, i.S)}
	case KString:
		g.boundsObl(st, "idx", g.textAt(x.Pos()), x.Pos(), "(<= 0 "+i.S+")", "(< "+i.S+" "+b.Len+")")
		bt := types.Typ[types.Uint8]
		v := &Val{K: KInt, T: bt, S: g.byteAt(st, bt, b.Arr, add(b.Off, i.S))}
		g.typeFacts(st, v, st.reach)
		return v
	}
	unsup("Index on kind %d", b.K)
	return nil
}

func mapKeyTerm(g *Gen, k *Val) string {
	switch k.K {
	case KString:
		return g.strKey(k)
	case KInt, KPtr, KIface, KOpaque:
		return k.S
	case KBool:
		return ite(k.S, "1", "0")
	}
	unsup("map key kind %d", k.K)
	return ""
}

func (g *Gen) mapArrays(st *State, mt types.Type) (has string, valPrefix string, vt types.Type) {
	m := mt.Underlying().(*types.Map)
	name := typeName(mt)
	has = "Map|" + name + "|has"
	g.setHeapSort(has, "(Array Int (Array Int Bool))")
	return has, "Map|" + name + "|val", m.Elem()
}

func (g *Gen) mapLoadVal(st *State, prefix string, vt types.Type, m, k string) *Val {
	if kindOf(vt) == KStruct || kindOf(vt) == KArray {
		return g.freshVal("mapval", vt)
	}
	sfx, kinds := leafComps(vt)
	leaves := make([]string, len(sfx))
	for i, s := range sfx {
		name := prefix + s
		g.setHeapSort(name, "(Array Int (Array Int "+sortOfKind(kinds[i])+"))")
		leaves[i] = sel(sel(g.heapSym(st.heap, name), m), k)
	}
	v := g.valFromLeaves(vt, leaves)
	g.typeFacts(st, v, st.reach)
	return v
}

func (g *Gen) doLookup(st *State, x *ssa.Lookup) *Val {
	b := g.val(st, x.X)
	i := g.val(st, x.Index)
	if b.K == KString {
		g.boundsObl(st, "idx", g.textAt(x.Pos()), x.Pos(), "(<= 0 "+i.S+")", "(< "+i.S+" "+b.Len+")")
		bt := types.Typ[types.Uint8]
		v := &Val{K: KInt, T: bt, S: g.byteAt(st, bt, b.Arr, add(b.Off, i.S))}
		g.typeFacts(st, v, st.reach)
		return v
	}
	// map
	has, vp, vt := g.mapArrays(st, x.X.Type())
	k := mapKeyTerm(g, i)
	hasT := sel(sel(g.heapSym(st.heap, has), b.S), k)
	hasT = and(not(eq(b.S, "0")), hasT)
	v := g.mapLoadVal(st, vp, vt, b.S, k)
	z := g.zeroVal(vt)
	res := g.iteVal(hasT, v, z)
	if x.CommaOk {
		return &Val{K: KTuple, T: x.Type(), Flds: []*Val{res, {K: KBool, T: types.Typ[types.Bool], S: hasT}}}
	}
	return res
}

func (g *Gen) iteVal(c string, a, b *Val) *Val {
	if c == "true" {
		return a
	}
	if c == "false" {
		return b
	}
	switch a.K {
	case KStruct, KTuple:
		r := &Val{K: a.K, T: a.T}
		for i := range a.Flds {
			r.Flds = append(r.Flds, g.iteVal(c, a.Flds[i], b.Flds[i]))
		}
		return r
	}
	la, lb := valLeaves(a), valLeaves(b)
	out := make([]string, len(la))
	for i := range la {
		out[i] = ite(c, la[i], lb[i])
	}
	return rebuild(a, out)
}

func (g *Gen) doMapUpdate(st *State, x *ssa.MapUpdate) {
	m := g.val(st, x.Map)
	k := mapKeyTerm(g, g.val(st, x.Key))
	v := g.val(st, x.Value)
	g.oblige("nil", "map write "+g.textAt(x.Pos()), x.Pos(), st.reach, not(eq(m.S, "0")))
	g.frameCheckMap(st, m.S, x.Pos(), g.textAt(x.Pos()))
	has, vp, vt := g.mapArrays(st, x.Map.Type())
	old := g.heapSym(st.heap, has)
	nw := g.fresh(has, "(Array Int (Array Int Bool))")
	g.emit("(assert " + eq(nw, sto(old, m.S, sto(sel(old, m.S), k, "true"))) + ")")
	st.heap.m[has] = nw
	if kindOf(vt) == KStruct || kindOf(vt) == KArray {
		return
	}
	sfx, kinds := leafComps(vt)
	leaves := valLeaves(v)
	for i, s := range sfx {
		name := vp + s
		srt := "(Array Int (Array Int " + sortOfKind(kinds[i]) + "))"
		g.setHeapSort(name, srt)
		o := g.heapSym(st.heap, name)
		n := g.fresh(name, srt)
		g.emit("(assert " + eq(n, sto(o, m.S, sto(sel(o, m.S), k, leaves[i]))) + ")")
		st.heap.m[name] = n
	}
}

func (g *Gen) doNext(st *State, x *ssa.Next) *Val {
	rng := g.val(st, x.Iter)
	src := rng.Flds[0]
	ok := g.fresh("next_ok", "Bool")
	tu := x.Type().(*types.Tuple)
	okV := &Val{K: KBool, T: types.Typ[types.Bool], S: ok}
	if x.IsString {
		idx := g.freshVal("next_i", tu.At(1).Type())
		r := g.freshVal("next_r", tu.At(2).Type())
		g.assume(ok, and("(<= 0 "+idx.S+")", "(< "+idx.S+" "+src.Len+")", "(<= 0 "+r.S+")", "(<= "+r.S+" 1114111)"))
		return &Val{K: KTuple, T: x.Type(), Flds: []*Val{okV, idx, r}}
	}
	// map iteration: arbitrary present key
	kt := tu.At(1).Type()
	key := g.zeroVal(types.Typ[types.Int])
	if kt != nil && kt != types.Typ[types.Invalid] {
		key = g.freshVal("next_k", kt)
		g.typeFacts(st, key, "true")
	}
	var val *Val
	if vt := tu.At(2).Type(); vt != nil && vt != types.Typ[types.Invalid] {
		has, vp, mvt := g.mapArrays(st, src.T)
		if key.K != KStruct {
			k := mapKeyTerm(g, key)
			g.assume(ok, sel(sel(g.heapSym(st.heap, has), src.S), k))
			val = g.mapLoadVal(st, vp, mvt, src.S, k)
		} else {
			val = g.freshVal("next_v", vt)
		}
	} else {
		val = g.zeroVal(types.Typ[types.Int])
		if key.K != KStruct && kt != types.Typ[types.Invalid] {
			has, _, _ := g.mapArrays(st, src.T)
			g.assume(ok, sel(sel(g.heapSym(st.heap, has), src.S), mapKeyTerm(g, key)))
		}
	}
	return &Val{K: KTuple, T: x.Type(), Flds: []*Val{okV, key, val}}
}

func (g *Gen) doSlice(st *State, x *ssa.Slice) *Val {
	b := g.val(st, x.X)
	text := g.textAt(x.Pos())
	var lo, hi, mx string
	if x.Low != nil {
		lo = g.val(st, x.Low).S
	} else {
		lo = "0"
	}
	switch b.K {
	case KSlice:
		if x.High != nil {
			hi = g.val(st, x.High).S
		} else {
			hi = b.Len
		}
		capv := b.Cap
		if x.Max != nil {
			mx = g.val(st, x.Max).S
			g.boundsObl(st, "slice", text, x.Pos(), "(<= 0 "+lo+")", "(<= "+lo+" "+hi+")", "(<= "+hi+" "+mx+")", "(<= "+mx+" "+b.Cap+")")
			capv = mx
		} else {
			g.boundsObl(st, "slice", text, x.Pos(), "(<= 0 "+lo+")", "(<= "+lo+" "+hi+")", "(<= "+hi+" "+b.Cap+")")
		}
		return &Val{K: KSlice, T: x.Type(), Arr: b.Arr, Off: add(b.Off, lo), Len: sub(hi, lo), Cap: sub(capv, lo)}
	case KString:
		if x.High != nil {
			hi = g.val(st, x.High).S
		} else {
			hi = b.Len
		}
		g.boundsObl(st, "slice", text, x.Pos(), "(<= 0 "+lo+")", "(<= "+lo+" "+hi+")", "(<= "+hi+" "+b.Len+")")
		return &Val{K: KString, T: x.Type(), Arr: b.Arr, Off: add(b.Off, lo), Len: sub(hi, lo)}
	case KArrPtr:
		n := fmt.Sprintf("%d", b.N)
		if x.High != nil {
			hi = g.val(st, x.High).S
		} else {
			hi = n
		}
		if b.Arr == "tbl" {
			unsup("slice of constant table")
		}
		g.boundsObl(st, "slice", text, x.Pos(), "(<= 0 "+lo+")", "(<= "+lo+" "+hi+")", "(<= "+hi+" "+n+")")
		return &Val{K: KSlice, T: x.Type(), Arr: b.Arr, Off: lo, Len: sub(hi, lo), Cap: sub(n, lo)}
	}
	unsup("Slice on kind %d", b.K)
	return nil
}

func (g *Gen) doMakeSlice(st *State, x *ssa.MakeSlice) *Val {
	l := g.val(st, x.Len).S
	c := g.val(st, x.Cap).S
	g.boundsObl(st, "makeslice", g.textAt(x.Pos()), x.Pos(), "(<= 0 "+l+")", "(<= "+l+" "+c+")")
	arr := g.newArr(st, "make")
	et := x.Type().Underlying().(*types.Slice).Elem()
	g.zeroArr(st, et, arr)
	return &Val{K: KSlice, T: x.Type(), Arr: arr, Off: "0", Len: l, Cap: c}
}

// zeroArr asserts that array arr is all-zero in the current memory.
func (g *Gen) zeroArr(st *State, et types.Type, arr string) {
	switch kindOf(et) {
	case KStruct:
		return // struct element arrays: leave unconstrained (sound)
	case KArray:
		return
	}
	sfx, kinds := leafComps(et)
	for i, s := range sfx {
		z := "0"
		if kinds[i] == KBool {
			z = "false"
		}
		m := g.memSym(st, et, s, kinds[i])
		g.assume("true", eq(sel(m, arr), "((as const (Array Int "+sortOfKind(kinds[i])+")) "+z+")"))
	}
}

func (g *Gen) doMakeInterface(st *State, x *ssa.MakeInterface) *Val {
	v := g.val(st, x.X)
	ct := x.X.Type()
	tag := g.P.tagOf("type|" + typeName(ct))
	if isScalarKind(v.K) && v.K != KBool {
		fn := g.mkifSym(ct)
		r := &Val{K: KIface, T: x.Type(), S: "(" + fn + " " + v.S + ")"}
		g.nodeBaseFact(ct, v.S, r.S)
		return r
	}
	id := g.fresh("iface", "Int")
	g.emit(fmt.Sprintf("(assert (and (not (= %s 0)) (= (iftype %s) %d)))", id, id, tag))
	if v.K == KSlice {
		// a boxed slice is an immutable value: the box determines the slice header
		g.emit("(assert " + and(eq("(ifsarr "+id+")", v.Arr), eq("(ifsoff "+id+")", v.Off), eq("(ifslen "+id+")", v.Len), eq("(ifscap "+id+")", v.Cap)) + ")")
	}
	return &Val{K: KIface, T: x.Type(), S: id}
}

// unboxSlice: the slice held by interface value id (see doMakeInterface)
func unboxSlice(id string, t types.Type) *Val {
	return &Val{K: KSlice, T: t, Arr: "(ifsarr " + id + ")", Off: "(ifsoff " + id + ")", Len: "(ifslen " + id + ")", Cap: "(ifscap " + id + ")"}
}

func (g *Gen) doTypeAssert(st *State, x *ssa.TypeAssert) *Val {
	v := g.val(st, x.X)
	at := x.AssertedType
	var okT string
	var res *Val
	if types.IsInterface(at) {
		// interface-to-interface: cannot be decided; ok is unknown unless nil
		okb := g.fresh("implements", "Bool")
		g.assume("true", implies(eq(v.S, "0"), not(okb)))
		// stable per (value,type): use uninterpreted predicate
		pred := sym("impl|" + typeName(at))
		g.declareOnce(pred, fmt.Sprintf("(declare-fun %s (Int) Bool)", pred))
		g.assume("true", eq(okb, and(not(eq(v.S, "0")), "("+pred+" (iftype "+v.S+"))")))
		okT = okb
		res = &Val{K: KIface, T: at, S: v.S}
	} else {
		tag := g.P.tagOf("type|" + typeName(at))
		okT = and(not(eq(v.S, "0")), eq("(iftype "+v.S+")", fmt.Sprintf("%d", tag)))
		switch kindOf(at) {
		case KPtr, KInt, KOpaque:
			res = &Val{K: kindOf(at), T: at, S: "(ifptr " + v.S + ")"}
			if kindOf(at) == KPtr {
				// a node value of dynamic type at: its BaseNode is the one embedded in the object it points to
				g.nodeBaseFactIf(okT, at, res.S, v.S)
				_ = g.mkifSym(at) // boxing axioms of the type (an interface value is determined by dynamic type and pointer)
			}
		case KSlice:
			res = unboxSlice(v.S, at)
			g.typeFacts(st, res, okT)
		default:
			res = g.freshVal("assertval", at)
			g.typeFacts(st, res, "true")
		}
	}
	if x.CommaOk {
		z := g.zeroVal(at)
		return &Val{K: KTuple, T: x.Type(), Flds: []*Val{g.iteVal(okT, res, z), {K: KBool, T: types.Typ[types.Bool], S: okT}}}
	}
	g.oblige("typeassert", g.textAt(x.Pos()), x.Pos(), st.reach, okT)
	return res
}

func (g *Gen) doConvert(st *State, x *ssa.Convert) *Val {
	v := g.val(st, x.X)
	from, to := x.X.Type(), x.Type()
	fk, tk := kindOf(from), kindOf(to)
	switch {
	case fk == KInt && tk == KInt:
		r := &Val{K: KInt, T: to, S: v.S}
		flo, fhi, fok := intRange(from)
		tlo, thi, tok := intRange(to)
		if fok && tok && within(flo, fhi, tlo, thi) {
			return r
		}
		if isUnsigned(to) {
			return g.wrap(r)
		}
		// signed target narrower than source: two's complement wrap
		bits := intBits(to)
		half := pow2(int64(bits - 1))
		full := pow2(int64(bits))
		if isConstTerm(v.S) {
			return r
		}
		r.S = "(- (mod (+ " + v.S + " " + half + ") " + full + ") " + half + ")"
		return r
	case fk == KString && tk == KSlice:
		// []byte(s): fresh array, same contents
		arr := g.newArr(st, "conv")
		et := to.Underlying().(*types.Slice).Elem()
		if kindOf(et) == KInt && intBits(et) == 8 {
			m := g.memSym(st, et, "", KInt)
			g.assume("true", fmt.Sprintf("(forall ((k Int)) (! (=> (and (<= 0 k) (< k %s)) (= (select (select %s %s) k) %s)) :pattern ((select (select %s %s) k))))",
				v.Len, m, arr, g.byteAt(st, et, v.Arr, add(v.Off, "k")), m, arr))
			// equal contents, equal key
			g.assume("true", eq("(strkey (select "+m+" "+arr+") 0 "+v.Len+")", "(strkey (select "+m+" "+v.Arr+") "+v.Off+" "+v.Len+")"))
		}
		return &Val{K: KSlice, T: to, Arr: arr, Off: "0", Len: v.Len, Cap: v.Len}
	case fk == KSlice && tk == KString:
		arr := g.newArr(st, "conv")
		et := from.Underlying().(*types.Slice).Elem()
		if kindOf(et) == KInt && intBits(et) == 8 {
			m := g.memSym(st, et, "", KInt)
			g.assume("true", fmt.Sprintf("(forall ((k Int)) (! (=> (and (<= 0 k) (< k %s)) (= (select (select %s %s) k) %s)) :pattern ((select (select %s %s) k))))",
				v.Len, m, arr, g.byteAt(st, et, v.Arr, add(v.Off, "k")), m, arr))
			// content-determined key
			g.assume("true", eq("(strkey (select "+m+" "+arr+") 0 "+v.Len+")", "(strkey (select "+m+" "+v.Arr+") "+v.Off+" "+v.Len+")"))
		}
		return &Val{K: KString, T: to, Arr: arr, Off: "0", Len: v.Len}
	case fk == KInt && tk == KString:
		r := g.freshVal("runestr", to)
		g.assume("true", and("(>= "+r.Len+" 1)", "(<= "+r.Len+" 4)", "(> "+r.Arr+" 0)", eq(r.Off, "0")))
		return r
	case fk == tk && isScalarKind(fk):
		r := *v
		r.T = to
		return &r
	case tk == KOpaque || fk == KOpaque:
		r := g.freshVal("conv", to)
		g.typeFacts(st, r, "true")
		return r
	}
	unsup("convert %s -> %s", from, to)
	return nil
}

func within(flo, fhi, tlo, thi string) bool {
	p := func(s string) (float64, bool) {
		var f float64
		if strings.HasPrefix(s, "(- ") {
			_, err := fmt.Sscanf(s, "(- %f)", &f)
			return -f, err == nil
		}
		_, err := fmt.Sscanf(s, "%f", &f)
		return f, err == nil
	}
	a, ok1 := p(flo)
	b, ok2 := p(fhi)
	c, ok3 := p(tlo)
	d, ok4 := p(thi)
	return ok1 && ok2 && ok3 && ok4 && a >= c && b <= d
}


func (g *Gen) isPkgInit() bool {
	return g.fn.Name() == "init" && g.fn.Synthetic != "" && g.fn.Parent() == nil
}


// mkifSym: the injective constructor of interface values holding a value of concrete type ct.
// Pointers are recovered with ifptr, other scalars with ifval.
func (g *Gen) mkifSym(ct types.Type) string {
	fn := sym("mkif|" + typeName(ct))
	if !g.declared[fn] {
		g.declared[fn] = true
		tag := g.P.tagOf("type|" + typeName(ct))
		inv := "ifval"
		if kindOf(ct) == KPtr {
			inv = "ifptr"
		}
		g.emit(fmt.Sprintf("(declare-fun %s (Int) Int)", fn))
		g.emit(fmt.Sprintf("(assert (forall ((p Int)) (! (and (not (= (%s p) 0)) (= (%s (%s p)) p) (= (iftype (%s p)) %d)) :pattern ((%s p)))))", fn, inv, fn, fn, tag, fn))
		// an interface value is determined by its dynamic type and the value it holds: re-boxing what was unboxed gives it back
		g.emit(fmt.Sprintf("(assert (forall ((v Int)) (! (=> (and (not (= v 0)) (= (iftype v) %d)) (= (%s (%s v)) v)) :pattern ((%s (%s v))) :pattern ((%s v) (iftype v)))))", tag, fn, inv, fn, inv, inv))
	}
	return fn
}

// nodeBaseFact: when the contracts define the node model function base(v), an interface value made
// from a pointer to a struct that embeds ast.BaseNode has base(v) = address of that embedded BaseNode.
func (g *Gen) nodeBaseFact(ct types.Type, ptr, iface string) {
	g.nodeBaseFactIf("true", ct, ptr, iface)
}

// nodeBaseFactIf: the same fact under a condition (after a type assertion: only when the dynamic type is ct)
func (g *Gen) nodeBaseFactIf(cond string, ct types.Type, ptr, iface string) {
	sf := g.P.specFuns["base"]
	if sf == nil || kindOf(ct) != KPtr {
		return
	}
	st := deref(ct)
	if structOf(st) == nil {
		return
	}
	addr, ok := g.embeddedBaseNode(st, ptr, 0)
	if !ok {
		return
	}
	g.declareSpecFun(sf)
	key := "basefact|" + ptr + "|" + iface
	if g.declared[key] {
		return
	}
	g.declared[key] = true
	g.assume("true", implies(and(cond, not(eq(ptr, "0"))), eq("("+sym("sf|base")+" "+iface+")", addr)))
}

func (g *Gen) embeddedBaseNode(t types.Type, addr string, depth int) (string, bool) {
	if depth > 4 {
		return "", false
	}
	if nt, ok := t.(*types.Named); ok && nt.Obj().Name() == "BaseNode" && nt.Obj().Pkg() != nil && nt.Obj().Pkg().Path() == modPath+"/ast" {
		return addr, true
	}
	s := structOf(t)
	if s == nil {
		return "", false
	}
	for i := 0; i < s.NumFields(); i++ {
		f := s.Field(i)
		if f.Embedded() && kindOf(f.Type()) == KStruct {
			if a, ok := g.embeddedBaseNode(f.Type(), g.subAddr(t, f, addr), depth+1); ok {
				return a, true
			}
		}
	}
	return "", false
}
