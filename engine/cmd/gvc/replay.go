package main

import (
	"context"
	"encoding/json"
	"fmt"
	"go/types"
	"os"
	"os/exec"
	"path/filepath"
	"regexp"
	"strconv"
	"strings"
	"time"
)

func bgCtx() context.Context { return context.Background() }

// ---------- replay of solver counterexamples on the real code ----------
//
// For a failed obligation with a model, gvc re-solves the same query with small size bounds on the
// inputs, reads the parameter values out of the model, writes an in-package Go test that builds these
// inputs and calls the REAL function, and observes the failure concretely (panic / compiled
// postcondition false / caller-owned bytes changed).  The test is injected with `go test -overlay`;
// nothing is written to /repo.

type rvar struct {
	term string
	sort string
}

type replayBuilder struct {
	g     *Gen
	q     []rvar // queried terms
	model map[int]string
	decls []string // Go statements building inputs
	nvar  int
	ok    bool
	why   string
	ptrs  map[string]string // model address -> go variable
	snaps []string          // names of []byte variables to snapshot (full capacity)
}

func (rb *replayBuilder) ask(term, sort string) int {
	rb.q = append(rb.q, rvar{term, sort})
	return len(rb.q) - 1
}

// plan is a tree mirroring the Go value to construct, with indices into the query list.
type plan struct {
	t      types.Type
	kind   string // int bool bytes string struct ptr
	i      int    // scalar / len
	capi   int
	elems  []int
	fields []*plan
	fnames []string
	addr   int
}

const replayMaxLen = 10

func (rb *replayBuilder) planFor(v *Val, t types.Type, depth int) *plan {
	if depth > 4 {
		rb.ok, rb.why = false, "value too deep"
		return nil
	}
	g := rb.g
	switch v.K {
	case KInt:
		return &plan{t: t, kind: "int", i: rb.ask(v.S, "Int")}
	case KBool:
		return &plan{t: t, kind: "bool", i: rb.ask(v.S, "Bool")}
	case KSlice:
		et := elemTypeOf(t)
		if !(kindOf(et) == KInt && intBits(et) == 8) {
			rb.ok, rb.why = false, "slice of "+et.String()
			return nil
		}
		p := &plan{t: t, kind: "bytes", i: rb.ask(v.Len, "Int"), capi: rb.ask(v.Cap, "Int")}
		for k := 0; k < 2*replayMaxLen; k++ {
			p.elems = append(p.elems, rb.ask(sel(sel(g.entryByteMem, v.Arr), add(v.Off, strconv.Itoa(k))), "Int"))
		}
		p.addr = rb.ask(v.Arr, "Int")
		return p
	case KString:
		p := &plan{t: t, kind: "string", i: rb.ask(v.Len, "Int")}
		for k := 0; k < replayMaxLen; k++ {
			p.elems = append(p.elems, rb.ask(g.byteAt(g.entry, types.Typ[types.Uint8], v.Arr, add(v.Off, strconv.Itoa(k))), "Int"))
		}
		return p
	case KStruct:
		s := structOf(t)
		p := &plan{t: t, kind: "struct"}
		for i := 0; i < s.NumFields(); i++ {
			fp := rb.planFor(v.Flds[i], s.Field(i).Type(), depth+1)
			if fp == nil {
				return nil
			}
			p.fields = append(p.fields, fp)
			p.fnames = append(p.fnames, s.Field(i).Name())
		}
		return p
	case KPtr:
		et := deref(t)
		if structOf(et) == nil {
			rb.ok, rb.why = false, "pointer to non-struct"
			return nil
		}
		sv := g.loadStruct(g.entry, et, v.S)
		sp := rb.planFor(sv, et, depth+1)
		if sp == nil {
			return nil
		}
		return &plan{t: t, kind: "ptr", fields: []*plan{sp}, addr: rb.ask(v.S, "Int")}
	}
	rb.ok, rb.why = false, fmt.Sprintf("unsupported parameter kind %d (%s)", v.K, t)
	return nil
}

func (rb *replayBuilder) mint(i int) int64 {
	s := rb.model[i]
	s = strings.TrimSpace(s)
	if strings.HasPrefix(s, "(-") {
		s = strings.TrimSpace(strings.TrimSuffix(strings.TrimPrefix(s, "(-"), ")"))
		n, _ := strconv.ParseInt(s, 10, 64)
		return -n
	}
	n, _ := strconv.ParseInt(s, 10, 64)
	return n
}

func (rb *replayBuilder) goExpr(p *plan, qual func(types.Type) string) string {
	switch p.kind {
	case "int":
		return fmt.Sprintf("%s(%d)", qual(p.t), rb.mint(p.i))
	case "bool":
		return rb.model[p.i]
	case "bytes":
		n, c := rb.mint(p.i), rb.mint(p.capi)
		if rb.mint(p.addr) == 0 && n == 0 {
			return "[]byte(nil)"
		}
		if c > int64(2*replayMaxLen) {
			c = int64(2 * replayMaxLen)
		}
		if n > c {
			n = c
		}
		rb.nvar++
		name := fmt.Sprintf("b%d", rb.nvar)
		var bs []string
		for k := int64(0); k < c; k++ {
			bs = append(bs, fmt.Sprintf("0x%02x", byte(rb.mint(p.elems[k]))))
		}
		rb.decls = append(rb.decls, fmt.Sprintf("%s := []byte{%s}[:%d]", name, strings.Join(bs, ", "), n))
		rb.snaps = append(rb.snaps, name)
		return name
	case "string":
		n := rb.mint(p.i)
		if n > replayMaxLen {
			n = replayMaxLen
		}
		var sb strings.Builder
		for k := int64(0); k < n; k++ {
			sb.WriteString(fmt.Sprintf("\\x%02x", byte(rb.mint(p.elems[k]))))
		}
		return qual(p.t) + "(\"" + sb.String() + "\")"
	case "struct":
		var fs []string
		for i, f := range p.fields {
			fs = append(fs, p.fnames[i]+": "+rb.goExpr(f, qual))
		}
		return qual(p.t) + "{" + strings.Join(fs, ", ") + "}"
	case "ptr":
		a := rb.model[p.addr]
		if v, ok := rb.ptrs[a]; ok {
			return v
		}
		if rb.mint(p.addr) == 0 {
			return "nil"
		}
		rb.nvar++
		name := fmt.Sprintf("p%d", rb.nvar)
		e := rb.goExpr(p.fields[0], qual)
		rb.decls = append(rb.decls, fmt.Sprintf("%s := &%s", name, e))
		rb.ptrs[a] = name
		return name
	}
	return "nil"
}

var rvRe = regexp.MustCompile(`\(rv!(\d+)\s+(\(-\s*\d+\)|\d+|true|false)\)`)

// writeReplay writes the replay file and returns true when the failure was observed on the real code.
func writeReplay(P *Program, repo, propID string, o *Obl, r *FuncResult, path string) bool {
	var sb strings.Builder
	fmt.Fprintf(&sb, "property: %s\nobligation: %s\nkind: %s\nposition: %s\nverdict: %s (solver %s, %.2fs)\n", propID, o.Name, o.Kind, posStr(o), o.V.Result, o.V.Solver, o.V.Secs)
	fmt.Fprintf(&sb, "goal (SMT): %s\nunder reach condition: %s\n", o.Goal, o.Guard)
	fmt.Fprintf(&sb, "--- solver output ---\n%s\n", strings.TrimSpace(o.V.Output))
	confirmed := false
	defer func() {
		if !confirmed {
			sb.WriteString("\nresult: no-failing-input-found (the obligation is not discharged; no concrete input was replayed)\n")
		}
		os.WriteFile(path, []byte(sb.String()), 0o644)
	}()
	if os.Getenv("GVC_SURVEY") != "" {
		return false
	}
	if r == nil || r.gen == nil {
		return false
	}
	g := r.gen
	fn := g.fn
	if fn.Parent() != nil {
		sb.WriteString("--- replay: closures are not replayed directly ---\n")
		return false
	}
	rb := &replayBuilder{g: g, ok: true, ptrs: map[string]string{}}
	n0 := len(g.lines)
	var plans []*plan
	func() {
		defer func() {
			if rec := recover(); rec != nil {
				rb.ok, rb.why = false, fmt.Sprint(rec)
			}
		}()
		for _, p := range fn.Params {
			pl := rb.planFor(g.vals[p], p.Type(), 0)
			if pl == nil {
				return
			}
			plans = append(plans, pl)
		}
	}()
	extra := append([]string{}, g.lines[n0:]...)
	g.lines = g.lines[:n0]
	if !rb.ok {
		fmt.Fprintf(&sb, "--- replay: inputs cannot be constructed mechanically (%s) ---\n", rb.why)
		return false
	}
	// query
	var q strings.Builder
	q.WriteString(prelude)
	for _, l := range g.lines[:o.Upto] {
		q.WriteString(l + "\n")
	}
	for _, l := range g.lines[o.Upto:] {
		if strings.HasPrefix(l, "(declare-fun ") {
			q.WriteString(l + "\n")
		}
	}
	seenDecl := map[string]bool{}
	for _, l := range extra {
		if strings.HasPrefix(l, "(declare-fun ") && !seenDecl[l] {
			// may duplicate a later declaration already copied above
			name := strings.Fields(l)[1]
			dup := false
			for _, l2 := range g.lines[o.Upto:] {
				if strings.HasPrefix(l2, "(declare-fun "+name+" ") {
					dup = true
				}
			}
			if !dup {
				q.WriteString(l + "\n")
			}
			seenDecl[l] = true
		} else if !strings.HasPrefix(l, "(declare-fun ") {
			q.WriteString(l + "\n")
		}
	}
	q.WriteString("(assert (not " + implies(o.Guard, o.Goal) + "))\n")
	// small bounds
	var walk func(p *plan)
	walk = func(p *plan) {
		switch p.kind {
		case "bytes":
			fmt.Fprintf(&q, "(assert (<= %s %d))\n(assert (<= %s %d))\n", rb.q[p.i].term, replayMaxLen, rb.q[p.capi].term, 2*replayMaxLen)
		case "string":
			fmt.Fprintf(&q, "(assert (<= %s %d))\n", rb.q[p.i].term, replayMaxLen)
		case "int":
			fmt.Fprintf(&q, "(assert (and (<= (- 1000000) %s) (<= %s 1000000)))\n", rb.q[p.i].term, rb.q[p.i].term)
		}
		for _, f := range p.fields {
			walk(f)
		}
	}
	for _, p := range plans {
		walk(p)
	}
	var names []string
	for i, v := range rb.q {
		fmt.Fprintf(&q, "(declare-fun rv!%d () %s)\n(assert (= rv!%d %s))\n", i, v.sort, i, v.term)
		names = append(names, fmt.Sprintf("rv!%d", i))
	}
	q.WriteString("(check-sat)\n(get-value (" + strings.Join(names, " ") + "))\n")
	var v Verdict
	for _, sp := range []solverSpec{solvers[0], solvers[1]} {
		v = runOne(bgCtx(), sp, q.String(), 8000)
		if v.Result == "sat" {
			break
		}
	}
	if v.Result != "sat" {
		fmt.Fprintf(&sb, "--- replay: no small model (bounded re-solve answered %s) ---\n%s\n", v.Result, firstLines(v.Output, 5))
		return false
	}
	rb.model = map[int]string{}
	for _, m := range rvRe.FindAllStringSubmatch(v.Output, -1) {
		i, _ := strconv.Atoi(m[1])
		rb.model[i] = m[2]
	}
	if len(rb.model) < len(rb.q) {
		fmt.Fprintf(&sb, "--- replay: model incomplete (%d of %d values) ---\n", len(rb.model), len(rb.q))
		return false
	}
	// Go test
	pkg := fn.Pkg.Pkg
	qual := func(t types.Type) string {
		return types.TypeString(t, func(p *types.Package) string {
			if p == pkg {
				return ""
			}
			return p.Name()
		})
	}
	imports := map[string]bool{}
	var argExprs []string
	for _, pl := range plans {
		argExprs = append(argExprs, rb.goExpr(pl, func(t types.Type) string {
			s := qual(t)
			collectImports(t, pkg, imports)
			return s
		}))
	}
	call := ""
	if fn.Signature.Recv() != nil {
		call = fmt.Sprintf("(%s).%s(%s)", argExprs[0], fn.Name(), strings.Join(argExprs[1:], ", "))
	} else {
		call = fmt.Sprintf("%s(%s)", fn.Name(), strings.Join(argExprs, ", "))
	}
	var tb strings.Builder
	fmt.Fprintf(&tb, "package %s\n\nimport (\n\t\"fmt\"\n\t\"testing\"\n", pkg.Name())
	for im := range imports {
		fmt.Fprintf(&tb, "\t%q\n", im)
	}
	tb.WriteString(")\n\nfunc TestGvcReplay(t *testing.T) {\n")
	for _, d := range rb.decls {
		tb.WriteString("\t" + d + "\n")
	}
	for _, s := range rb.snaps {
		fmt.Fprintf(&tb, "\tsnap_%s := append([]byte(nil), %s[:cap(%s)]...)\n", s, s, s)
	}
	tb.WriteString("\tdefer func() {\n\t\tif r := recover(); r != nil {\n\t\t\tfmt.Printf(\"REPLAY-PANIC: %v\\n\", r)\n\t\t}\n\t}()\n")
	nres := fn.Signature.Results().Len()
	if nres > 0 {
		var rs []string
		for i := 0; i < nres; i++ {
			rs = append(rs, fmt.Sprintf("r%d", i))
		}
		fmt.Fprintf(&tb, "\t%s := %s\n", strings.Join(rs, ", "), call)
		for _, rname := range rs {
			fmt.Fprintf(&tb, "\t_ = %s\n", rname)
		}
		if nres == 1 {
			tb.WriteString("\tfmt.Printf(\"REPLAY-RESULT: %#v\\n\", r0)\n")
		}
	} else {
		fmt.Fprintf(&tb, "\t%s\n", call)
	}
	for _, s := range rb.snaps {
		fmt.Fprintf(&tb, "\tfor i := range snap_%s {\n\t\tif %s[:cap(%s)][i] != snap_%s[i] {\n\t\t\tfmt.Printf(\"REPLAY-WRITE: caller-owned byte %s[%%d] changed from %%#x to %%#x\\n\", i, snap_%s[i], %s[:cap(%s)][i])\n\t\t}\n\t}\n", s, s, s, s, s, s, s, s)
	}
	tb.WriteString("\tfmt.Println(\"REPLAY-DONE\")\n}\n")
	dir := filepath.Dir(P.fset.Position(fn.Pos()).Filename)
	out, err := runOverlayTest(repo, dir, tb.String())
	fmt.Fprintf(&sb, "--- replay test (package %s, injected with go test -overlay) ---\n%s\n--- replay output ---\n%s\n", pkg.Path(), tb.String(), out)
	if err != nil {
		fmt.Fprintf(&sb, "(go test: %v)\n", err)
	}
	switch o.Kind {
	case "idx", "slice", "nil", "div", "typeassert", "panic-unreachable", "makeslice", "pre@call":
		confirmed = strings.Contains(out, "REPLAY-PANIC")
	case "frame-store":
		confirmed = strings.Contains(out, "REPLAY-WRITE")
	}
	if confirmed {
		sb.WriteString("\nresult: CONFIRMED on the real code\n")
	}
	return confirmed
}

func collectImports(t types.Type, self *types.Package, m map[string]bool) {
	switch u := t.(type) {
	case *types.Named:
		if p := u.Obj().Pkg(); p != nil && p != self {
			m[p.Path()] = true
		}
	case *types.Pointer:
		collectImports(u.Elem(), self, m)
	case *types.Slice:
		collectImports(u.Elem(), self, m)
	}
}

func firstLines(s string, n int) string {
	ls := strings.Split(s, "\n")
	if len(ls) > n {
		ls = ls[:n]
	}
	return strings.Join(ls, "\n")
}

// runOverlayTest runs an in-package test injected via -overlay in pkgDir (absolute) of repo.
func runOverlayTest(repo, pkgDir, src string) (string, error) {
	tmp, err := os.MkdirTemp("", "gvc-replay-")
	if err != nil {
		return "", err
	}
	defer os.RemoveAll(tmp)
	tf := filepath.Join(tmp, "zz_gvc_replay_test.go")
	if err := os.WriteFile(tf, []byte(src), 0o644); err != nil {
		return "", err
	}
	ov := map[string]map[string]string{"Replace": {filepath.Join(pkgDir, "zz_gvc_replay_test.go"): tf}}
	ob, _ := json.Marshal(ov)
	of := filepath.Join(tmp, "ov.json")
	os.WriteFile(of, ob, 0o644)
	ctx, cancel := context.WithTimeout(context.Background(), 120*time.Second)
	defer cancel()
	cmd := exec.CommandContext(ctx, "go", "test", "-overlay", of, "-vet=off", "-count=1", "-timeout", "60s", "-run", "^TestGvcReplay$", "-v", ".")
	cmd.Dir = pkgDir
	cmd.Env = append(os.Environ(), "GOFLAGS=-mod=mod", "GOPROXY=off", "GOSUMDB=off", "GOTOOLCHAIN=local")
	b, err := cmd.CombinedOutput()
	s := string(b)
	if len(s) > 6000 {
		s = s[:6000]
	}
	return s, err
}

// rerunReplay re-executes the test recorded in a replay file.
func rerunReplay(repo, path string) int {
	b, _ := os.ReadFile(path)
	s := string(b)
	i := strings.Index(s, "--- replay test (package ")
	if i < 0 {
		fmt.Println("\n(no executable replay recorded in this file)")
		return 0
	}
	hdr := s[i+len("--- replay test (package "):]
	pkgPath := hdr[:strings.Index(hdr, ",")]
	body := hdr[strings.Index(hdr, "\n")+1:]
	j := strings.Index(body, "--- replay output ---")
	if j < 0 {
		return 0
	}
	src := body[:j]
	dir := filepath.Join(repo, strings.TrimPrefix(strings.TrimPrefix(pkgPath, modPath), "/"))
	out, _ := runOverlayTest(repo, dir, src)
	fmt.Println("\n=== re-run on current /repo ===")
	fmt.Println(out)
	if strings.Contains(out, "REPLAY-PANIC") || strings.Contains(out, "REPLAY-WRITE") || strings.Contains(out, "REPLAY-POST-FALSE") {
		return 1
	}
	return 0
}
