package main

// runScan dispatches structural (SSA-level) obligations; see scans.go for the individual scans.
func runScan(P *Program, name string) []*Obl {
	if f, ok := scans[name]; ok {
		return f(P)
	}
	return []*Obl{{Name: "scan:" + name, Kind: "scan", V: Verdict{Result: "unbound", Output: "unknown scan"}}}
}

var scans = map[string]func(P *Program) []*Obl{}
