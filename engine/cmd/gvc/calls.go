package main

import (
	"os"
	"fmt"
	"go/token"
	"go/types"
	"strings"

	"golang.org/x/tools/go/ssa"
)

// Standard-library functions that write into a byte slice argument (index of that argument).
var extByteWriters = map[string]int{
	"unicode/utf8::EncodeRune": 0,
	"encoding/binary::PutUvarint": 0,
	"io::ReadFull": 1,
}

// ---------- builtins ----------

func (g *Gen) doCall(st *State, c *ssa.Call) *Val {
	cc := c.Common()
	pos := c.Pos()
	text := g.textAt(pos)
	if b, ok := cc.Value.(*ssa.Builtin); ok {
		return g.doBuiltin(st, c, b.Name())
	}
	var args []*Val
	for _, a := range cc.Args {
		args = append(args, g.val(st, a))
	}
	g.checkCallAsserts(st, c, args)
	if cc.IsInvoke() {
		recv := g.val(st, cc.Value)
		g.nilCheck(st, recv, pos, text)
		key := ifaceKey(cc)
		g.argsNonNil(st, c, g.P.specs[key], nil, append([]*Val{recv}, args...), cc.Method.Name())
		if sp := g.P.specs[key]; sp != nil {
			return g.callWithSpec(st, c, sp, nil, append([]*Val{recv}, args...), text)
		}
		ms := g.P.invokeModSet(cc)
		g.havocked = append(g.havocked, fmt.Sprintf("invoke %s (no interface contract)", key))
		g.frameCheckOpaqueCall(st, c, ms, key)
		return g.havocCall(st, c, ms, append([]*Val{recv}, args...))
	}
	if fn, ok := cc.Value.(*ssa.Function); ok {
		key := specKeyOf(fn)
		if ai, isW := extByteWriters[key]; isW && g.hooks != nil && g.hooks.onExtWrite != nil && ai < len(args) {
			g.hooks.onExtWrite(g, st, args[ai], pos, text)
		}
		g.argsNonNil(st, c, g.P.specs[key], fn, args, fnKey(fn))
		if sp := g.P.specs[key]; sp != nil {
			return g.callWithSpec(st, c, sp, fn, args, text)
		}
		ms := g.P.modSetOf(fn)
		g.havocked = append(g.havocked, fmt.Sprintf("call %s (no contract)", key))
		g.frameCheckOpaqueCall(st, c, ms, key)
		res := g.havocCall(st, c, ms, args)
		if g.P.returnsFreshNonNil(fn) && res != nil && (res.K == KPtr || res.K == KIface) {
			// inferred from the callee's body: every return hands back the address of an object it allocated
			g.assume(st.reach, not(eq(res.S, "0")))
			g.knownNonNil[res.S] = true
		}
		return res
	}
	// a function-typed parameter declared `purefunc`: the call has no effect, only an arbitrary result
	if g.spec != nil {
		if prm := funcParamOf(cc.Value); prm != nil {
			for _, pp := range g.spec.PureParams {
				if pp == prm.Name() {
					// the call owes the precondition the caller promised the function tolerates
					if specMentionsFunpre(g.spec, pp) {
						g.oblige("pre@call", "funpre("+pp+"):"+text, pos, st.reach, g.funPreTerm(pp, args))
					}
					for _, dp := range g.spec.DetParams {
						if dp == pp && isScalarKind(kindOf(c.Type())) {
							r := &Val{K: kindOf(c.Type()), T: c.Type(), S: g.detResTerm(pp, args, kindOf(c.Type()))}
							g.typeFacts(st, r, "true")
							return r
						}
					}
					return g.havocResult(st, c.Type(), "ret_pure_"+pp)
				}
			}
		}
	}
	// a value of a named function type that carries a contract (`iface pkg.T.call`): every function passed
	// as a T is assumed to satisfy it (listed as an assumption, like interface implementations outside /repo)
	if nt, ok := cc.Value.Type().(*types.Named); ok && nt.Obj().Pkg() != nil {
		key := nt.Obj().Pkg().Path() + "::" + nt.Obj().Name() + ".call"
		if sp := g.P.specs[key]; sp != nil {
			g.notes = append(g.notes, "function-type contract "+key+" assumed for every function value of that type")
			return g.callWithSpec(st, c, sp, nil, args, text)
		}
	}
	// closure / function value: the callee may be any in-repo function, so the default non-nil
	// precondition is owed for every pointer/interface argument
	if g.hooks != nil && g.hooks.paramsNonNil {
		for i, a := range args {
			if a == nil || (a.K != KPtr && a.K != KIface) || g.knownNonNil[a.S] || (isConstTerm(a.S) && a.S != "0") ||
				strings.HasPrefix(a.S, "|G!") || strings.HasPrefix(a.S, "(|sub!") || strings.HasPrefix(a.S, "(|ea!") {
				continue
			}
			g.oblige("pre@call", fmt.Sprintf("dynamic:nonnil arg%d", i), c.Pos(), st.reach, not(eq(a.S, "0")))
		}
	}
	g.havocked = append(g.havocked, "dynamic call "+text)
	g.frameCheckOpaqueCall(st, c, &ModSet{All: true}, "dynamic "+text)
	return g.havocCall(st, c, &ModSet{All: true}, args)
}

func ifaceKey(cc *ssa.CallCommon) string {
	t := cc.Value.Type()
	name := typeName(t)
	if n, ok := t.(*types.Named); ok && n.Obj().Pkg() != nil {
		return n.Obj().Pkg().Path() + "::" + n.Obj().Name() + "." + cc.Method.Name()
	}
	return "::" + name + "." + cc.Method.Name()
}

func specKeyOf(fn *ssa.Function) string {
	p := fn
	for p.Parent() != nil {
		p = p.Parent()
	}
	pkg := ""
	if p.Pkg != nil {
		pkg = p.Pkg.Pkg.Path()
	} else if recv := p.Signature.Recv(); recv != nil {
		// method of instantiated/wrapper; best effort
		if n, ok := deref(recv.Type()).(*types.Named); ok && n.Obj().Pkg() != nil {
			pkg = n.Obj().Pkg().Path()
		}
	}
	return pkg + "::" + fnKey(fn)
}

func (g *Gen) doBuiltin(st *State, c *ssa.Call, name string) *Val {
	cc := c.Common()
	t := c.Type()
	switch name {
	case "ssa:deferstack":
		return &Val{K: KOpaque, T: t, S: "0"}
	case "len":
		v := g.val(st, cc.Args[0])
		switch v.K {
		case KSlice, KString:
			return &Val{K: KInt, T: t, S: v.Len}
		case KArrPtr:
			return &Val{K: KInt, T: t, S: fmt.Sprintf("%d", v.N)}
		case KArray:
			return &Val{K: KInt, T: t, S: fmt.Sprintf("%d", v.T.Underlying().(*types.Array).Len())}
		case KOpaque: // map
			r := &Val{K: KInt, T: t, S: "(maplen " + v.S + " " + g.fresh("mapver", "Int") + ")"}
			g.assume("true", "(<= 0 "+r.S+")")
			return r
		}
	case "cap":
		v := g.val(st, cc.Args[0])
		if v.K == KSlice {
			return &Val{K: KInt, T: t, S: v.Cap}
		}
	case "append":
		s := g.val(st, cc.Args[0])
		x := g.val(st, cc.Args[1])
		return g.doAppend(st, c, s, x)
	case "copy":
		d := g.val(st, cc.Args[0])
		s := g.val(st, cc.Args[1])
		return g.doCopy(st, c, d, s)
	case "delete":
		m := g.val(st, cc.Args[0])
		k := mapKeyTerm(g, g.val(st, cc.Args[1]))
		has, _, _ := g.mapArrays(st, cc.Args[0].Type())
		g.frameCheckMap(st, m.S, c.Pos(), "delete")
		old := g.heapSym(st.heap, has)
		nw := g.fresh(has, "(Array Int (Array Int Bool))")
		g.emit("(assert " + eq(nw, sto(old, m.S, sto(sel(old, m.S), k, "false"))) + ")")
		st.heap.m[has] = nw
		return &Val{K: KTuple, T: t}
	case "min", "max":
		a := g.val(st, cc.Args[0])
		b := g.val(st, cc.Args[1])
		if a.K == KInt && len(cc.Args) == 2 {
			op := "<="
			if name == "max" {
				op = ">="
			}
			return &Val{K: KInt, T: t, S: ite("("+op+" "+a.S+" "+b.S+")", a.S, b.S)}
		}
	}
	unsup("builtin %s", name)
	return nil
}

func elemTypeOf(t types.Type) types.Type {
	switch u := t.Underlying().(type) {
	case *types.Slice:
		return u.Elem()
	case *types.Basic:
		return types.Typ[types.Uint8]
	}
	return nil
}

// readElemLeaves reads the leaf components of element i (absolute index) in array arr before an update.
func (g *Gen) elemLeafTerms(st *State, et types.Type, arr, idx string) []string {
	if kindOf(et) == KInt && intBits(et) == 8 {
		return []string{g.byteAt(st, et, arr, idx)}
	}
	return valLeaves(g.loadElem(st, et, arr, idx))
}

func (g *Gen) doAppend(st *State, c *ssa.Call, s, x *Val) *Val {
	t := c.Type()
	et := elemTypeOf(s.T)
	n := x.Len
	newlen := add(s.Len, n)
	inplace := g.fresh("append_inplace", "Bool")
	g.emit("(assert " + eq(inplace, "(<= "+newlen+" "+s.Cap+")") + ")")
	g.frameCheckAppend(st, s, n, c.Pos(), g.textAt(c.Pos()))
	if g.onAppend != nil {
		g.onAppend(g, st, s, n, c.Pos(), g.textAt(c.Pos()))
	}
	g.assume(and(st.reach, inplace, not(eq(n, "0"))), "(<= 0 "+s.Arr+")") // see store: constants are never written
	fa := g.newArr(st, "append_arr")
	fcap := g.fresh("append_cap", "Int")
	g.emit("(assert (and (>= " + fcap + " " + newlen + ") (<= " + fcap + " 4611686018427387904)))")
	r := &Val{K: KSlice, T: t, Arr: ite(inplace, s.Arr, fa), Off: ite(inplace, s.Off, "0"), Len: newlen, Cap: ite(inplace, s.Cap, fcap)}
	if x.K == KSlice && x.Arr == "0" || n == "0" {
		// appending nothing
		return &Val{K: KSlice, T: t, Arr: s.Arr, Off: s.Off, Len: s.Len, Cap: s.Cap}
	}
	if kindOf(et) == KStruct {
		g.appendStructs(st, et, s, x, r, inplace, fa)
		return r
	}
	if kindOf(et) == KArray {
		unsup("append of array elements")
	}
	sfx, kinds := leafComps(et)
	// read sources before updating
	constN := int64(-1)
	if isConstTerm(n) {
		fmt.Sscanf(n, "%d", &constN)
	}
	xet := elemTypeOf(x.T)
	var xs [][]string // per element j: leaves
	if constN >= 0 && constN <= 4 {
		for j := int64(0); j < constN; j++ {
			xs = append(xs, g.elemLeafTerms(st, xet, x.Arr, add(x.Off, fmt.Sprintf("%d", j))))
		}
	}
	for ci, sf := range sfx {
		srt := sortOfKind(kinds[ci])
		oldM := g.memSym(st, et, sf, kinds[ci])
		S := sel(oldM, s.Arr)
		D := g.fresh("append_dst", "(Array Int "+srt+")")
		base := add(s.Off, s.Len)
		if xs != nil {
			// in place: exact stores
			d := S
			for j := range xs {
				d = sto(d, add(base, fmt.Sprintf("%d", j)), xs[j][ci])
			}
			g.assume(inplace, eq(D, d))
			// realloc: prefix + new elements
			g.assume(not(inplace), fmt.Sprintf("(forall ((k Int)) (! (=> (and (<= 0 k) (< k %s)) (= (select %s k) %s)) :pattern ((select %s k))))",
				s.Len, D, g.srcRead(st, et, sf, kinds[ci], s.Arr, add(s.Off, "k")), D))
			for j := range xs {
				g.assume(not(inplace), eq(sel(D, add(s.Len, fmt.Sprintf("%d", j))), xs[j][ci]))
			}
		} else {
			xread := func(k string) string { // element k of x (0-based)
				return g.srcRead(st, xet, sf, kinds[ci], x.Arr, add(x.Off, k))
			}
			g.assume(inplace, fmt.Sprintf("(forall ((k Int)) (! (= (select %s k) (ite (and (<= %s k) (< k %s)) %s (select %s k))) :pattern ((select %s k))))",
				D, base, add(base, n), xread(sub("k", base)), S, D))
			g.assume(not(inplace), fmt.Sprintf("(forall ((k Int)) (! (=> (and (<= 0 k) (< k %s)) (= (select %s k) (ite (< k %s) %s %s))) :pattern ((select %s k))))",
				newlen, D, s.Len, g.srcRead(st, et, sf, kinds[ci], s.Arr, add(s.Off, "k")), xread(sub("k", s.Len)), D))
		}
		_, nw := g.setMem(st, et, sf, kinds[ci])
		g.emit("(assert " + eq(nw, sto(oldM, r.Arr, D)) + ")")
	}
	return r
}

// srcRead: read component of element at absolute index (bytes go through byteAt for string constants)
func (g *Gen) srcRead(st *State, et types.Type, comp string, k Kind, arr, idx string) string {
	if comp == "" && kindOf(et) == KInt && intBits(et) == 8 {
		return g.byteAt(st, et, arr, idx)
	}
	return sel(sel(g.memSym(st, et, comp, k), arr), idx)
}

func (g *Gen) structLeafNames(t types.Type, out *[]structLeaf, pathFn func(addr string) string) {
	s := structOf(t)
	for i := 0; i < s.NumFields(); i++ {
		f := s.Field(i)
		ft := f.Type()
		switch kindOf(ft) {
		case KStruct:
			ff := f
			g.structLeafNames(ft, out, func(addr string) string { return g.subAddr(t, ff, pathFn(addr)) })
		case KArray:
			unsup("array field inside appended struct")
		default:
			sfx, kinds := leafComps(ft)
			for j, sf := range sfx {
				*out = append(*out, structLeaf{name: "H|" + typeName(t) + "|" + f.Name() + sf, sort: sortOfKind(kinds[j]), addr: pathFn})
			}
		}
	}
}

type structLeaf struct {
	name   string
	sort   string
	addr   func(string) string
	nested string
}

func (g *Gen) appendStructs(st *State, et types.Type, s, x, r *Val, inplace, fa string) {
	var leaves []structLeaf
	g.structLeafNames(et, &leaves, func(a string) string { return a })
	n := x.Len
	constN := int64(-1)
	if isConstTerm(n) {
		fmt.Sscanf(n, "%d", &constN)
	}
	for _, lf := range leaves {
		g.setHeapSort(lf.name, "(Array Int "+lf.sort+")")
		old := g.heapSym(st.heap, lf.name)
		nw := g.fresh(lf.name, "(Array Int "+lf.sort+")")
		ea := func(arr, idx string) string { return lf.addr(g.elemAddr(et, arr, idx)) }
		if constN >= 0 && constN <= 4 {
			// in place: exact stores
			d := old
			for j := int64(0); j < constN; j++ {
				js := fmt.Sprintf("%d", j)
				d = sto(d, ea(s.Arr, add(add(s.Off, s.Len), js)), sel(old, ea(x.Arr, add(x.Off, js))))
			}
			g.assume(inplace, eq(nw, d))
		} else {
			g.assume(inplace, fmt.Sprintf("(forall ((k Int)) (! (=> (and (<= 0 k) (< k %s)) (= (select %s %s) (select %s %s))) :pattern ((select %s %s))))",
				n, nw, ea(s.Arr, add(add(s.Off, s.Len), "k")), old, ea(x.Arr, add(x.Off, "k")), nw, ea(s.Arr, add(add(s.Off, s.Len), "k"))))
			g.assume(inplace, fmt.Sprintf("(forall ((k Int)) (! (=> (and (<= 0 k) (< k %s)) (= (select %s %s) (select %s %s))) :pattern ((select %s %s))))",
				s.Len, nw, ea(s.Arr, add(s.Off, "k")), old, ea(s.Arr, add(s.Off, "k")), nw, ea(s.Arr, add(s.Off, "k"))))
		}
		// realloc: new array fa gets prefix + appended; every address of another array unchanged
		g.assume(not(inplace), fmt.Sprintf("(forall ((k Int)) (! (=> (and (<= 0 k) (< k %s)) (= (select %s %s) (select %s %s))) :pattern ((select %s %s))))",
			s.Len, nw, ea(fa, "k"), old, ea(s.Arr, add(s.Off, "k")), nw, ea(fa, "k")))
		g.assume(not(inplace), fmt.Sprintf("(forall ((k Int)) (! (=> (and (<= 0 k) (< k %s)) (= (select %s %s) (select %s %s))) :pattern ((select %s %s))))",
			n, nw, ea(fa, add(s.Len, "k")), old, ea(x.Arr, add(x.Off, "k")), nw, ea(fa, add(s.Len, "k"))))
		// frame for other arrays' elements: stated per accessed element on demand via quantifier over array id
		g.assume(not(inplace), fmt.Sprintf("(forall ((a Int) (k Int)) (! (=> (not (= a %s)) (= (select %s %s) (select %s %s))) :pattern ((select %s %s))))",
			fa, nw, ea("a", "k"), old, ea("a", "k"), nw, ea("a", "k")))
		st.heap.m[lf.name] = nw
	}
}

func (g *Gen) doCopy(st *State, c *ssa.Call, d, s *Val) *Val {
	t := c.Type()
	et := elemTypeOf(d.T)
	n := ite("(<= "+d.Len+" "+s.Len+")", d.Len, s.Len)
	nn := g.fresh("copy_n", "Int")
	g.emit("(assert " + eq(nn, n) + ")")
	g.frameCheckCopy(st, d, nn, c.Pos(), g.textAt(c.Pos()))
	if g.onCopy != nil {
		g.onCopy(g, st, d, nn, c.Pos(), g.textAt(c.Pos()))
	}
	if kindOf(et) == KStruct || kindOf(et) == KArray {
		unsup("copy of aggregate elements")
	}
	g.assume(and(st.reach, not(eq(nn, "0"))), "(<= 0 "+d.Arr+")")
	sfx, kinds := leafComps(et)
	set := elemTypeOf(s.T)
	for ci, sf := range sfx {
		srt := sortOfKind(kinds[ci])
		oldM := g.memSym(st, et, sf, kinds[ci])
		D := g.fresh("copy_dst", "(Array Int "+srt+")")
		g.assume("true", fmt.Sprintf("(forall ((k Int)) (! (= (select %s k) (ite (and (<= %s k) (< k %s)) %s (select (select %s %s) k))) :pattern ((select %s k))))",
			D, d.Off, add(d.Off, nn), g.srcRead(st, set, sf, kinds[ci], s.Arr, add(s.Off, sub("k", d.Off))), oldM, d.Arr, D))
		_, nw := g.setMem(st, et, sf, kinds[ci])
		g.emit("(assert " + eq(nw, sto(oldM, d.Arr, D)) + ")")
	}
	return &Val{K: KInt, T: t, S: nn}
}

// ---------- calls with contracts ----------

// funPreTerm: the (uninterpreted) precondition predicate of purefunc parameter pp applied to args
func (g *Gen) funPreTerm(pp string, args []*Val) string {
	f := sym("funpre|" + pp)
	var as, srts []string
	for _, a := range args {
		if !isScalarKind(a.K) {
			unsup("funpre %s: non-scalar argument", pp)
		}
		as = append(as, a.S)
		srts = append(srts, sortOfKind(a.K))
	}
	g.declareOnce(f, fmt.Sprintf("(declare-fun %s (%s) Bool)", f, strings.Join(srts, " ")))
	if len(as) == 0 {
		return f
	}
	return "(" + f + " " + strings.Join(as, " ") + ")"
}

// specMentionsFunpre: does the contract constrain the arguments it hands to purefunc parameter pp?
func specMentionsFunpre(sp *FuncSpec, pp string) bool {
	for _, cl := range sp.Requires {
		if strings.Contains(cl.E.String(), "funpre("+pp+",") {
			return true
		}
	}
	return false
}

// funPreOf: the requires clauses of the known function f instantiated with args (plus the default non-nil
// precondition of its pointer/interface parameters).  Must be heap-independent.
func (g *Gen) funPreOf(env *Env, f *ssa.Function, args []*Val) string {
	if len(args) != len(f.Params) {
		unsup("funpre: %s takes %d arguments", fnDisplayName(f), len(f.Params))
	}
	sp := g.P.specs[specKeyOf(f)]
	pkg := env.pkg
	if sp != nil {
		pkg = sp.Pkg
	}
	fenv := g.newEnv(env.cur, env.cur, pkg)
	var conj []string
	for i, prm := range f.Params {
		fenv.vars[prm.Name()] = args[i]
		if (args[i].K == KPtr || args[i].K == KIface) && !(sp != nil && sp.Nilable[prm.Name()]) {
			conj = append(conj, not(eq(args[i].S, "0")))
		}
	}
	if sp != nil {
		g.noHeap++
		for _, cl := range sp.Requires {
			conj = append(conj, g.evalBool(fenv, g.P.expand(cl.E)))
		}
		g.noHeap--
	}
	return and(conj...)
}

// detResTerm: the result of calling the `detfunc` parameter pp on args (an uninterpreted function of the arguments)
func (g *Gen) detResTerm(pp string, args []*Val, rk Kind) string {
	f := sym("detres|" + pp)
	var as, srts []string
	for _, a := range args {
		if !isScalarKind(a.K) {
			unsup("detfunc %s: non-scalar argument", pp)
		}
		as = append(as, a.S)
		srts = append(srts, sortOfKind(a.K))
	}
	g.declareOnce(f, fmt.Sprintf("(declare-fun %s (%s) %s)", f, strings.Join(srts, " "), sortOfKind(rk)))
	if len(as) == 0 {
		return f
	}
	return "(" + f + " " + strings.Join(as, " ") + ")"
}

func (g *Gen) havocResult(st *State, t types.Type, prefix string) *Val {
	if tu, ok := t.(*types.Tuple); ok && tu.Len() == 0 {
		return &Val{K: KTuple, T: t}
	}
	r := g.freshVal(prefix, t)
	g.typeFacts(st, r, "true")
	return r
}

func (g *Gen) havocCall(st *State, c *ssa.Call, ms *ModSet, args []*Val) *Val {
	g.applyModSet(st, ms)
	return g.havocResult(st, c.Type(), "ret_"+c.Name())
}

func (g *Gen) advanceBrk(st *State) {
	ob, oa := g.brk(st), g.abrk(st)
	nb, na := g.fresh("brk", "Int"), g.fresh("abrk", "Int")
	g.emit("(assert (and (>= " + nb + " " + ob + ") (>= " + na + " " + oa + ")))")
	st.heap.m["brk"] = nb
	st.heap.m["abrk"] = na
}

func (g *Gen) applyModSet(st *State, ms *ModSet) {
	if ms.All {
		ob, oa := g.brk(st), g.abrk(st)
		om := g.memSym(st, types.Typ[types.Uint8], "", KInt)
		g.nbase++
		st.heap = &Heap{m: map[string]string{}, base: &heapBase{id: g.nbase}}
		nb, na := g.brk(st), g.abrk(st)
		g.emit("(assert (and (>= " + nb + " " + ob + ") (>= " + na + " " + oa + ")))")
		g.constFrame(om, g.memSym(st, types.Typ[types.Uint8], "", KInt))
		return
	}
	var fresh []string
	for _, name := range sortedKeys(ms.Names) {
		if name == "brk" || name == "abrk" {
			continue // advanceBrk below keeps the allocation counters monotone
		}
		srt, ok := g.heapSort[name]
		if !ok {
			srt = g.P.sortOfHeapName(name)
			if srt == "" {
				continue // never referenced with a known sort in this function: no effect on anything we track yet
			}
			g.setHeapSort(name, srt)
		}
		if strings.HasPrefix(srt, "FUN ") {
			g.n++
			s := sym(fmt.Sprintf("%s@h!%d", name, g.n))
			g.emit(fmt.Sprintf("(declare-fun %s %s)", s, strings.TrimPrefix(srt, "FUN ")))
			st.heap.m[name] = s
			continue
		}
		if name == "M|uint8" {
			om := g.heapSym(st.heap, name)
			nm := g.fresh(name, srt)
			st.heap.m[name] = nm
			g.constFrame(om, nm)
			continue
		}
		st.heap.m[name] = g.fresh(name, srt)
		fresh = append(fresh, name)
	}
	g.advanceBrk(st)
	for _, name := range fresh {
		g.rangeAxiom(st.heap, name, st.heap.m[name])
	}
}

// constFrame: string-constant memory (negative array ids) is never changed by anything.
func (g *Gen) constFrame(oldM, newM string) {
	if oldM == newM {
		return
	}
	g.emit(fmt.Sprintf("(assert (forall ((a Int)) (! (=> (< a 0) (= (select %s a) (select %s a))) :pattern ((select %s a)))))", newM, oldM, newM))
}

func (g *Gen) callWithSpec(st *State, c *ssa.Call, sp *FuncSpec, fn *ssa.Function, args []*Val, text string) *Val {
	g.usedSpecs[sp.Pkg+"::"+sp.Key] = true
	sig := c.Common().Signature()
	names := g.P.paramNames(sp, fn, c.Common())
	if len(names) != len(args) {
		unsup("arity mismatch calling %s: %d names, %d args", sp.Key, len(names), len(args))
	}
	env := g.newEnv(st, st, sp.Pkg)
	for i, n := range names {
		env.vars[n] = args[i]
	}
	pre := st.clone()
	env.cur, env.old = pre, pre
	calleeName := sp.Key
	// arguments for `purefunc` parameters must be functions with an empty modifies clause
	if fn != nil {
		for _, pp := range sp.PureParams {
			for i, prm := range fn.Params {
				if prm.Name() != pp || i >= len(c.Common().Args) {
					continue
				}
				ok := false
				if af := staticFuncOf(c.Common().Args[i]); af != nil {
					if asp := g.P.specs[specKeyOf(af)]; asp != nil && asp.HasMod && !asp.ModAll && len(asp.Modifies) == 0 {
						ok = true
						if env.funArgs == nil {
							env.funArgs = map[string]*ssa.Function{}
						}
						env.funArgs[pp] = af
						// a callee that says nothing about the arguments it passes on can only take a function without preconditions
						if len(asp.Requires) > 0 && !specMentionsFunpre(sp, pp) {
							ok = false
						}
					}
				}
				goal := "false"
				if ok {
					goal = "true"
				}
				g.oblige("pre@call", calleeName+":purefunc "+pp, c.Pos(), st.reach, goal)
			}
		}
	}
	for _, cl := range sp.Requires {
		ce := cl.E
		if g.hooks != nil && g.hooks.paramsNonNil {
			// the safety sweep relies on declared global invariants (decided by another check) instead of
			// re-proving them at every call site
			ce = g.dropGlobalInvs(ce)
			if ce == nil {
				continue
			}
		}
		for _, part := range splitGoal(g.P.expand(ce)) {
			t := g.evalBool(env, part)
			lb := cl.Name
			if lb == "" {
				lb = part.String()
			}
			g.oblige("pre@call", calleeName+":"+lb, c.Pos(), st.reach, t)
		}
	}
	// frame
	if sp.HasMod {
		g.applyDeclaredMods(st, env, sp)
		if !sp.ModAll {
			g.freshAllocHavoc(st, pre, c, fn)
		}
	} else if fn != nil {
		g.frameCheckOpaqueCall(st, c, g.P.modSetOf(fn), calleeName)
		g.applyModSet(st, g.P.modSetOf(fn))
	} else {
		g.frameCheckOpaqueCall(st, c, g.P.invokeModSet(c.Common()), calleeName)
		g.applyModSet(st, g.P.invokeModSet(c.Common()))
	}
	// ghost updates
	g.applyUpdates(st, pre, env, sp)
	// results
	res := g.havocResult(st, c.Type(), "ret_"+calleeName)
	post := g.newEnv(st, pre, sp.Pkg)
	post.funArgs = env.funArgs
	for k, v := range env.vars {
		post.vars[k] = v
	}
	g.bindResults(post, sig.Results(), res, fn)
	g.applyPostUpdates(st, pre, post, sp)
	for _, cl := range sp.Ensures {
		g.assume(st.reach, g.evalBool(post, cl.E))
	}
	if sp.HasMod {
		g.frameCheckCall(st, pre, c, sp, env, calleeName)
	}
	return res
}

// freshAllocHavoc: a callee with a declared frame may still allocate objects / arrays and initialise them; the
// declared frame is silent about those.  The pointer- and array-valued heap arrays it may write get a new version
// that agrees with the old one on everything that existed before the call (and obeys the range axiom of the
// post-state), so a cell of a fresh object can hold a fresh address.
func (g *Gen) freshAllocHavoc(st *State, pre *State, c *ssa.Call, fn *ssa.Function) {
	fs := &freshSet{Names: map[string]bool{}}
	if fn != nil {
		fs = g.P.freshPtrNames(fn)
	} else if c.Common().IsInvoke() {
		for _, im := range g.P.implementations(c.Common()) {
			o := g.P.freshPtrNames(im)
			if o.All {
				fs.All = true
			}
			for n := range o.Names {
				fs.Names[n] = true
			}
		}
	} else {
		return
	}
	names := map[string]bool{}
	for n := range fs.Names {
		names[n] = true
	}
	if fs.All {
		for n := range g.heapSort {
			if g.P.isPtrHeapName(n) || g.heapKind[n] == KPtr || g.heapKind[n] == KIface {
				names[n] = true
			}
		}
		for n := range g.P.heapKinds {
			names[n] = true
		}
	}
	if os.Getenv("GVC_DEBUG_FRESH") != "" && len(names) > 0 {
		fmt.Fprintf(os.Stderr, "FRESH-HAVOC in %s at call %s: %v\n", g.fnName(), g.textAt(c.Pos()), sortedKeys(names))
	}
	bp, ap := g.brk(pre), g.abrk(pre)
	for _, name := range sortedKeys(names) {
		srt, ok := g.heapSort[name]
		if !ok {
			srt = g.P.sortOfHeapName(name)
			if srt == "" {
				continue
			}
			g.setHeapSort(name, srt)
		}
		if k, ok := g.P.heapKinds[name]; ok {
			g.noteKind(name, k)
		}
		old := g.heapSym(st.heap, name)
		nw := g.fresh(name, srt)
		switch srt {
		case "(Array Int Int)":
			g.emit(fmt.Sprintf("(assert (forall ((p Int)) (! (=> (< p %s) (= (select %s p) (select %s p))) :pattern ((select %s p)))))", bp, nw, old, nw))
		case "(Array Int (Array Int Int))":
			g.emit(fmt.Sprintf("(assert (forall ((a Int)) (! (=> (< a %s) (= (select %s a) (select %s a))) :pattern ((select %s a)))))", ap, nw, old, nw))
		default:
			continue
		}
		st.heap.m[name] = nw
		g.rangeAxiom(st.heap, name, nw)
	}
}

// dropGlobalInvs removes the conjuncts of e that are applications of a macro declared `globalinv`.
func (g *Gen) dropGlobalInvs(e *SExpr) *SExpr {
	if e == nil {
		return nil
	}
	if e.Op == "call" && g.P.globalInvs[e.Name] && len(e.Args) == 0 {
		g.notes = append(g.notes, "global invariant "+e.Name+"() relied upon at a call site (decided by the check that owns it)")
		return nil
	}
	if e.Op == "bin" && e.Name == "&&" {
		a, b := g.dropGlobalInvs(e.Args[0]), g.dropGlobalInvs(e.Args[1])
		switch {
		case a == nil:
			return b
		case b == nil:
			return a
		}
		c := *e
		c.Args = []*SExpr{a, b}
		return &c
	}
	return e
}

func (g *Gen) bindResults(env *Env, results *types.Tuple, res *Val, fn *ssa.Function) {
	switch results.Len() {
	case 0:
	case 1:
		env.vars["result"] = res
		if n := results.At(0).Name(); n != "" && n != "_" {
			env.vars[n] = res
		}
	default:
		for i := 0; i < results.Len(); i++ {
			env.vars[fmt.Sprintf("result%d", i)] = res.Flds[i]
			if n := results.At(i).Name(); n != "" && n != "_" {
				env.vars[n] = res.Flds[i]
			}
		}
	}
}

// applyDeclaredMods havocs exactly the declared locations.
func (g *Gen) applyDeclaredMods(st *State, env *Env, sp *FuncSpec) {
	if sp.ModAll {
		g.applyModSet(st, &ModSet{All: true})
		return
	}
	// fields, objects and ghosts are located in the pre-state; contents(s) denotes the array held by s
	// AFTER the call (fresh, or the old one when grown in place), so it is applied last, in the
	// partially havocked state.
	for _, item := range sp.Modifies {
		if !strings.HasPrefix(item, "contents(") {
			g.applyModItem(st, env, item, sp)
		}
	}
	for _, item := range sp.Modifies {
		if strings.HasPrefix(item, "contents(") {
			e2 := *env
			e2.cur = st
			g.applyModItem(st, &e2, item, sp)
		}
	}
	g.advanceBrk(st)
}

func (g *Gen) applyModItem(st *State, env *Env, item string, sp *FuncSpec) {
	// forms: ghost name | x.f.g (field of pointer) | s[*] | *p | all:T.f
	if strings.HasPrefix(item, "all_") {
		// whole heap array by (sanitised) name is not supported; use explicit field paths
		unsup("modifies %s", item)
	}
	if gf := g.P.ghostVar(item); gf != nil {
		name := "ghost|" + gf.Name
		g.setHeapSort(name, g.P.ghostSort(gf))
		g.n++
		s := sym(fmt.Sprintf("%s@m!%d", name, g.n))
		g.emit(fmt.Sprintf("(declare-fun %s %s)", s, strings.TrimPrefix(g.heapSort[name], "FUN ")))
		st.heap.m[name] = s
		return
	}
	toks, err := lex(item, 0, sp.Pos)
	if err != nil {
		unsup("modifies item %q: %v", item, err)
	}
	p := &sparser{toks: toks, file: sp.Pos}
	var e *SExpr
	func() {
		defer func() {
			if r := recover(); r != nil {
				unsup("modifies item %q: %v", item, r)
			}
		}()
		e = p.expr()
	}()
	g.havocLoc(st, env, e)
}

// havocLoc makes the location denoted by e arbitrary in st (evaluated in env.cur = pre-state).
func (g *Gen) havocLoc(st *State, env *Env, e *SExpr) {
	switch e.Op {
	case "sel":
		base := g.eval(env, e.Args[0])
		if base.K != KPtr {
			unsup("modifies: base of %s is not a pointer", e)
		}
		stT := deref(base.T)
		f, ok := fieldByName(stT, e.Name)
		if !ok {
			unsup("modifies: no field %s in %s", e.Name, stT)
		}
		g.havocField(st, f.owner, f.v, f.addr(g, base.S))
	case "call":
		if e.Name == "contents" { // contents(s): the elements of slice s
			s := g.eval(env, e.Args[0])
			et := elemTypeOf(s.T)
			if kindOf(et) == KStruct {
				g.havocStructElems(st, et, s.Arr)
				return
			}
			sfx, kinds := leafComps(et)
			for i, sf := range sfx {
				old, nw := g.setMem(st, et, sf, kinds[i])
				inner := g.fresh("havoc_contents", "(Array Int "+sortOfKind(kinds[i])+")")
				g.emit("(assert " + eq(nw, sto(old, s.Arr, inner)) + ")")
			}
			return
		}
		if e.Name == "object" { // object(p): every field of *p
			p := g.eval(env, e.Args[0])
			g.havocStruct(st, deref(p.T), p.S)
			return
		}
		if e.Name == "nested" { // nested(s): the elements of the slices that are elements of s (in-place growth of a bucket)
			s := g.eval(env, e.Args[0])
			it := elemTypeOf(elemTypeOf(s.T))
			if kindOf(it) == KStruct || kindOf(it) == KArray {
				unsup("modifies nested(): element type %s", it)
			}
			// over-approximation: the whole element memory of the inner type becomes arbitrary (constant arrays keep
			// their contents); callers lose facts about other arrays of that element type, never gain any
			sfx, kinds := leafComps(it)
			for i, sf := range sfx {
				old, nw := g.setMem(st, it, sf, kinds[i])
				g.constFrame(old, nw)
			}
			return
		}
		if e.Name == "mapcontents" { // mapcontents(m): the entries of map m become arbitrary; other maps keep theirs
			m := g.eval(env, e.Args[0])
			if m.T == nil {
				unsup("modifies mapcontents(): untyped map")
			}
			has, vp, vt := g.mapArrays(st, m.T)
			oldH := g.heapSym(st.heap, has)
			nwH := g.fresh(has, "(Array Int (Array Int Bool))")
			g.emit("(assert " + eq(nwH, sto(oldH, m.S, g.fresh("havoc_maphas", "(Array Int Bool)"))) + ")")
			st.heap.m[has] = nwH
			if kindOf(vt) != KStruct && kindOf(vt) != KArray {
				sfx, kinds := leafComps(vt)
				for i, sf := range sfx {
					name := vp + sf
					srt := "(Array Int (Array Int " + sortOfKind(kinds[i]) + "))"
					g.setHeapSort(name, srt)
					old := g.heapSym(st.heap, name)
					nw := g.fresh(name, srt)
					g.emit("(assert " + eq(nw, sto(old, m.S, g.fresh("havoc_mapval", "(Array Int "+sortOfKind(kinds[i])+")"))) + ")")
					st.heap.m[name] = nw
				}
			}
			return
		}
		if e.Name == "all" { // all(T.f): field f of every object of struct type T becomes arbitrary
			sel := e.Args[0]
			if sel.Op != "sel" || sel.Args[0].Op != "ident" {
				unsup("modifies all(T.f) expects Type.field")
			}
			t := g.P.resolveType(sel.Args[0].Name, env.pkg)
			if t == nil || structOf(t) == nil {
				unsup("modifies all(): unknown struct type %s", sel.Args[0].Name)
			}
			f, ok := fieldByName(t, sel.Name)
			if !ok {
				unsup("modifies all(): no field %s", sel.Name)
			}
			sfx, kinds := leafComps(f.v.Type())
			for i, sf := range sfx {
				name := "H|" + typeName(f.owner) + "|" + f.v.Name() + sf
				srt := "(Array Int " + sortOfKind(kinds[i]) + ")"
				g.setHeapSort(name, srt)
				g.noteKind(name, kinds[i])
				nw := g.fresh(name, srt)
				st.heap.m[name] = nw
				g.rangeAxiom(st.heap, name, nw)
			}
			return
		}
		unsup("modifies item %s", e)
	default:
		unsup("modifies item %s", e)
	}
}

func (g *Gen) havocStruct(st *State, t types.Type, addr string) {
	s := structOf(t)
	if s == nil {
		// cell
		g.storeAt(st, cellName(t), t, addr, g.freshValTyped(st, "havoc_cell", t))
		return
	}
	for i := 0; i < s.NumFields(); i++ {
		g.havocField(st, t, s.Field(i), addr)
	}
}

func (g *Gen) freshValTyped(st *State, prefix string, t types.Type) *Val {
	v := g.freshVal(prefix, t)
	g.typeFacts(st, v, "true")
	return v
}

func (g *Gen) havocField(st *State, structT types.Type, f *types.Var, addr string) {
	switch kindOf(f.Type()) {
	case KStruct:
		g.havocStruct(st, f.Type(), g.subAddr(structT, f, addr))
	case KArray:
		at := f.Type().Underlying().(*types.Array)
		old, nw := g.setMem(st, at.Elem(), "", kindOf(at.Elem()))
		inner := g.fresh("havoc_arr", "(Array Int "+sortOfKind(kindOf(at.Elem()))+")")
		g.emit("(assert " + eq(nw, sto(old, g.arrOf(structT, f, addr), inner)) + ")")
	default:
		g.storeAt(st, "H|"+typeName(structT)+"|"+f.Name(), f.Type(), addr, g.freshValTyped(st, "havoc_"+f.Name(), f.Type()))
	}
}

type fieldRef struct {
	owner types.Type
	v     *types.Var
	addr  func(g *Gen, base string) string
}

// fieldByName finds a (possibly promoted) field.
func fieldByName(t types.Type, name string) (fieldRef, bool) {
	s := structOf(t)
	if s == nil {
		return fieldRef{}, false
	}
	for i := 0; i < s.NumFields(); i++ {
		if s.Field(i).Name() == name {
			return fieldRef{owner: t, v: s.Field(i), addr: func(g *Gen, b string) string { return b }}, true
		}
	}
	for i := 0; i < s.NumFields(); i++ {
		f := s.Field(i)
		if f.Embedded() && kindOf(f.Type()) == KStruct {
			if r, ok := fieldByName(f.Type(), name); ok {
				inner := r.addr
				ff := f
				tt := t
				r.addr = func(g *Gen, b string) string { return inner(g, g.subAddr(tt, ff, b)) }
				return r, true
			}
		}
	}
	return fieldRef{}, false
}

// applyUpdates defines new ghost versions per the callee's `updates` clauses.
// applyPostUpdates: ghost updates whose body is evaluated in the post-state (heap after the call,
// ghost state after the ordinary updates) and may mention the results.
func (g *Gen) applyPostUpdates(st *State, pre *State, env *Env, sp *FuncSpec) {
	if len(sp.PostUpdates) == 0 {
		return
	}
	eval := st.clone() // all bodies see the same state
	g.applyUpdateList(st, eval, pre, env, sp, sp.PostUpdates)
}

func (g *Gen) applyUpdates(st *State, pre *State, env *Env, sp *FuncSpec) {
	g.applyUpdateList(st, pre, pre, env, sp, sp.Updates)
}

func (g *Gen) applyUpdateList(st *State, evalSt *State, pre *State, env *Env, sp *FuncSpec, list []Update) {
	g.applyUpdateListX(st, evalSt, pre, env, sp, list, nil)
}

// applyUpdateListEnv: like applyUpdateList, but the bodies are evaluated in a copy of env (locals, old state) re-pointed at evalSt
func (g *Gen) applyUpdateListEnv(st *State, evalSt *State, env *Env, sp *FuncSpec, list []Update) {
	g.applyUpdateListX(st, evalSt, nil, env, sp, list, env)
}

func (g *Gen) applyUpdateListX(st *State, evalSt *State, pre *State, env *Env, sp *FuncSpec, list []Update, proto *Env) {
	for _, u := range list {
		gf := g.P.ghostVar(u.Ghost)
		if gf == nil {
			unsup("updates of unknown ghost var %s", u.Ghost)
		}
		name := "ghost|" + gf.Name
		g.setHeapSort(name, g.P.ghostSort(gf))
		// body evaluated in evalSt (the pre-state for `updates`) with bound params
		var benv *Env
		if proto != nil {
			c := *proto
			c.cur = evalSt
			c.vars = map[string]*Val{}
			benv = &c
		} else {
			benv = g.newEnv(evalSt, pre, sp.Pkg)
		}
		for k, v := range env.vars {
			benv.vars[k] = v
		}
		var ps []string
		for i, pn := range u.Params {
			pt := g.P.resolveType(gf.Params[i].Type, sp.Pkg)
			bn := fmt.Sprintf("u!%s!%d", pn, g.n)
			g.n++
			benv.vars[pn] = &Val{K: kindOf(pt), T: pt, S: bn}
			ps = append(ps, fmt.Sprintf("(%s %s)", bn, sortOfKind(kindOf(pt))))
		}
		body := g.eval(benv, u.Body)
		g.n++
		s := sym(fmt.Sprintf("%s@u!%d", name, g.n))
		rt := g.P.resolveType(gf.Ret, sp.Pkg)
		if len(ps) == 0 {
			g.emit(fmt.Sprintf("(define-fun %s () %s %s)", s, sortOfKind(kindOf(rt)), body.S))
		} else {
			// an uninterpreted symbol with a defining equation triggered on its own applications: the new
			// ghost version can then occur in patterns (a define-fun would be inlined into an ite)
			var srts, names []string
			for _, pd := range ps {
				f := strings.Fields(strings.Trim(pd, "()"))
				names = append(names, f[0])
				srts = append(srts, f[1])
			}
			app := "(" + s + " " + strings.Join(names, " ") + ")"
			g.emit(fmt.Sprintf("(declare-fun %s (%s) %s)", s, strings.Join(srts, " "), sortOfKind(kindOf(rt))))
			g.emit(fmt.Sprintf("(assert (forall (%s) (! (= %s %s) :pattern (%s))))", strings.Join(ps, " "), app, body.S, app))
		}
		st.heap.m[name] = s
	}
}

var _ = token.NoPos


// havocStructElems makes every field of every element of struct array arr arbitrary; all other
// addresses of the same field arrays keep their values.
func (g *Gen) havocStructElems(st *State, et types.Type, arr string) {
	var leaves []structLeaf
	g.structLeafNames(et, &leaves, func(a string) string { return a })
	_ = g.elemAddr(et, "0", "0") // make sure ea / ea^a are declared
	tag := g.P.tagOf("ea|" + typeName(et))
	inva := sym("ea^a|" + typeName(et))
	for _, lf := range leaves {
		srt := "(Array Int " + lf.sort + ")"
		g.setHeapSort(lf.name, srt)
		old := g.heapSym(st.heap, lf.name)
		nw := g.fresh(lf.name, srt)
		if lf.nested == "" {
			// element addresses are negative; a top-level object (p >= 0) is never an element
			g.emit(fmt.Sprintf("(assert (forall ((p Int)) (! (=> (or (>= p 0) (not (and (= (%s p) %s) (= (subtag p) %d)))) (= (select %s p) (select %s p))) :pattern ((select %s p)))))", inva, arr, tag, nw, old, nw))
		}
		st.heap.m[lf.name] = nw
	}
}


func prefixNames(m map[string]string, h string) map[string]bool {
	out := map[string]bool{}
	for k := range m {
		if k == h || strings.HasPrefix(k, h+"#") {
			out[k] = true
		}
	}
	return out
}


// checkCallAsserts: `callassert Callee#n: e` clauses of the function under verification.
func (g *Gen) checkCallAsserts(st *State, c *ssa.Call, args []*Val) {
	if g.spec == nil || len(g.spec.CallAsserts) == 0 {
		return
	}
	cc := c.Common()
	var name string
	if cc.IsInvoke() {
		name = typeName(cc.Value.Type()) + "." + cc.Method.Name()
	} else if fn, ok := cc.Value.(*ssa.Function); ok {
		name = fnDisplayName(fn)
	} else {
		return
	}
	g.callCount[name]++
	var upds []Update
	defer func() {
		if len(upds) == 0 {
			return
		}
		// ghost assignments at this call site: simultaneous, evaluated in the state before the call
		env := g.specEnv(st, g.entry)
		env.locals = true
		env.atPos = c.Pos()
		for k, a := range args {
			env.vars[fmt.Sprintf("arg%d", k)] = a
		}
		for i := range upds {
			upds[i].Body = g.P.expand(upds[i].Body)
		}
		g.applyUpdateListEnv(st, st.clone(), env, g.spec, upds)
	}()
	for i := range g.spec.CallAsserts {
		ca := &g.spec.CallAsserts[i]
		if ca.Callee != name || ca.N != g.callCount[name] {
			continue
		}
		ca.bound = true
		if ca.Upd != nil {
			upds = append(upds, *ca.Upd)
			continue
		}
		env := g.specEnv(st, g.entry)
		env.locals = true
		env.atPos = c.Pos()
		for k, a := range args {
			env.vars[fmt.Sprintf("arg%d", k)] = a
		}
		for _, part := range splitGoal(g.P.expand(ca.E)) {
			lb := ca.Name
			if lb == "" {
				lb = part.String()
			}
			// (at a join the obligation is emitted once per incoming path: quantified goals are hard to case-split for the solvers)
			g.obligeSplit("assert", fmt.Sprintf("%s#%d:%s", name, ca.N, lb), c.Pos(), st.reach, g.evalBool(env, part))
		}
	}
}


func funcParamOf(v ssa.Value) *ssa.Parameter {
	for i := 0; i < 4; i++ {
		switch x := v.(type) {
		case *ssa.Parameter:
			return x
		case *ssa.UnOp:
			a, ok := x.X.(*ssa.Alloc)
			if !ok {
				return nil
			}
			var st *ssa.Store
			n := 0
			for _, r := range *a.Referrers() {
				if s, ok := r.(*ssa.Store); ok && s.Addr == a {
					st = s
					n++
				}
			}
			if n != 1 {
				return nil
			}
			v = st.Val
		default:
			return nil
		}
	}
	return nil
}

func staticFuncOf(v ssa.Value) *ssa.Function {
	for i := 0; i < 4; i++ {
		switch x := v.(type) {
		case *ssa.Function:
			return x
		case *ssa.ChangeType:
			v = x.X
		case *ssa.MakeClosure:
			// (a closure with captured variables is still a static function; its contract's frame covers the
			// captured cells, which are heap objects)
			if f, ok := x.Fn.(*ssa.Function); ok {
				return f
			}
			return nil
		default:
			return nil
		}
	}
	return nil
}
