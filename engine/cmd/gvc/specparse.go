package main

import (
	"fmt"
	"strconv"
	"strings"
	"unicode"
)

// ---------- spec AST ----------

type SExpr struct {
	Op   string   // ident, int, bool, nil, char, str, un, bin, call, sel, idx, slice, forall, exists, old, ite, typed
	Name string   // ident name / operator / field / callee
	Int  int64    // literal
	Str  string   // string literal
	Args []*SExpr // operands
	// quantifier
	Vars []SParam
	Trig [][]*SExpr
	Pos  string // file:line for messages
}

type SParam struct {
	Name string
	Type string // textual type
}

func (e *SExpr) String() string {
	if e == nil {
		return "<nil>"
	}
	switch e.Op {
	case "ident":
		return e.Name
	case "int":
		return strconv.FormatInt(e.Int, 10)
	case "char":
		return strconv.QuoteRune(rune(e.Int))
	case "bool":
		if e.Int != 0 {
			return "true"
		}
		return "false"
	case "nil":
		return "nil"
	case "str":
		return strconv.Quote(e.Str)
	case "un":
		return e.Name + e.Args[0].String()
	case "bin":
		return "(" + e.Args[0].String() + " " + e.Name + " " + e.Args[1].String() + ")"
	case "call":
		var a []string
		for _, x := range e.Args {
			a = append(a, x.String())
		}
		return e.Name + "(" + strings.Join(a, ", ") + ")"
	case "sel":
		return e.Args[0].String() + "." + e.Name
	case "idx":
		return e.Args[0].String() + "[" + e.Args[1].String() + "]"
	case "slice":
		lo, hi := "", ""
		if e.Args[1] != nil {
			lo = e.Args[1].String()
		}
		if e.Args[2] != nil {
			hi = e.Args[2].String()
		}
		return e.Args[0].String() + "[" + lo + ":" + hi + "]"
	case "forall", "exists":
		var vs []string
		for _, v := range e.Vars {
			vs = append(vs, v.Name+" "+v.Type)
		}
		return "(" + e.Op + " " + strings.Join(vs, ", ") + " :: " + e.Args[0].String() + ")"
	case "deref":
		return "*" + e.Args[0].String()
	case "old":
		return "old(" + e.Args[0].String() + ")"
	case "ite":
		return "(" + e.Args[0].String() + " ? " + e.Args[1].String() + " : " + e.Args[2].String() + ")"
	}
	return "?" + e.Op
}

// ---------- items ----------

type SpecFun struct { // fun (SMT define-fun) or ghost (declare-fun)
	Name    string
	Params  []SParam
	Ret     string
	Body    *SExpr // nil for ghost
	IsVar   bool   // ghost var: state dependent (versioned)
	Pkg     string
	Pos     string
	Trusted bool
}

type SpecMacro struct {
	Name   string
	Params []string
	Body   *SExpr
}

type Update struct {
	Ghost  string
	Params []string
	Body   *SExpr
	Pos    string
}

type Clause struct {
	E    *SExpr
	Pos  string
	Name string // optional label
}

type LoopSpec struct {
	Inv []Clause
	Dec *SExpr
}

type FuncSpec struct {
	Key      string // as written: Name, (*T).Name, T.Name, Outer$1
	Pkg      string // package path of the spec file
	IsIface  bool
	Requires []Clause
	Ensures  []Clause
	Updates  []Update
	Modifies []string // raw modifies items; "nothing" => pure wrt heap
	HasMod   bool
	ModAll   bool // modifies everything
	Loops    map[int]*LoopSpec
	Assumes  []Clause // counted
	Trusted  bool     // contract is assumed, body not verified (stdlib / external)
	BodySpec bool     // verified against the body, never used at call sites
	Uses     []string // axioms/lemmas to include
	Pos      string
	Bound    bool // set when matched to an SSA function
	NoNil    []string
	RefinesPre   []Clause // refinement run only: the concrete preconditions, proved at entry from the interface's
	RefinesIface string // "pkgname.Iface.Method": this method implements that interface contract ...
	RefinesAbs   string // ... under this abstraction (absmacro set)
	Nilable  map[string]bool // parameters that may be nil (exempt from the default non-nil precondition of the safety sweep)
	PostUpdates []Update // ghost updates evaluated in the post-state (may mention result); applied after `updates`
	Bridges  []Update // ghost(params) = expr over the CURRENT ghost state at return: proved equal to the declared update, then usable
	DetParams  []string // subset of PureParams: result is a function of the arguments alone
	PureParams []string // function-typed parameters whose calls have no effect (checked at every call site)
	CallAsserts []CallAssert // callassert Callee#n: expr  (proved just before the n-th call of Callee, args as arg0..)
	Hints    []Clause // proved at every return in the state BEFORE the ghost updates; introduces ground terms
}

type CallAssert struct {
	Callee string
	N      int
	E      *SExpr
	Name   string
	Pos    string
	bound  bool
	Upd    *Update // callupdate: a ghost assignment executed just before the call instead of an assertion
}

type Axiom struct {
	Def  bool // definitional axiom of a ghost function (recursive definition; conservative, not proved)
	Name string
	E    *SExpr
	Pkg  string
	Pos  string
}

type SpecFile struct {
	Pkg    string
	Funs   []*SpecFun
	Macros []*SpecMacro
	Funcs  []*FuncSpec
	Axioms []*Axiom
	Invs   map[string][]Clause
	GlobalInvs []string              // macro names declared `globalinv`
	AbsMacros  map[string][]*SpecMacro // abstraction name -> macros giving the concrete meaning of ghost vars
}

// ---------- lexer ----------

type tok struct {
	k    string // id, int, char, str, op, eof
	s    string
	n    int64
	line int
}

var keywords = map[string]bool{
	"requires": true, "ensures": true, "modifies": true, "updates": true, "loop": true,
	"func": true, "fun": true, "macro": true, "ghost": true, "axiom": true, "iface": true,
	"trusted": true, "assume": true, "defaxiom": true, "hint": true, "bridge": true, "postupdates": true, "callassert": true, "callupdate": true, "purefunc": true, "detfunc": true, "uses": true, "inv": true, "dec": true, "nonnil": true, "typeinv": true, "nilable": true, "globalinv": true, "refines": true, "absmacro": true,
}

func lex(src string, line0 int, file string) ([]tok, error) {
	var toks []tok
	line := line0
	i := 0
	for i < len(src) {
		c := src[i]
		switch {
		case c == '\n':
			line++
			i++
		case c == ' ' || c == '\t' || c == '\r':
			i++
		case c == '/' && i+1 < len(src) && src[i+1] == '/':
			for i < len(src) && src[i] != '\n' {
				i++
			}
		case unicode.IsLetter(rune(c)) || c == '_':
			j := i
			for j < len(src) && (unicode.IsLetter(rune(src[j])) || unicode.IsDigit(rune(src[j])) || src[j] == '_' || src[j] == '$') {
				j++
			}
			toks = append(toks, tok{k: "id", s: src[i:j], line: line})
			i = j
		case c >= '0' && c <= '9':
			j := i
			for j < len(src) && (unicode.IsDigit(rune(src[j])) || unicode.IsLetter(rune(src[j]))) {
				j++
			}
			n, err := strconv.ParseInt(src[i:j], 0, 64)
			if err != nil {
				return nil, fmt.Errorf("%s:%d: bad number %q", file, line, src[i:j])
			}
			toks = append(toks, tok{k: "int", n: n, s: src[i:j], line: line})
			i = j
		case c == '\'':
			j := i + 1
			for j < len(src) && src[j] != '\'' {
				if src[j] == '\\' {
					j++
				}
				j++
			}
			if j >= len(src) {
				return nil, fmt.Errorf("%s:%d: unterminated char", file, line)
			}
			r, _, _, err := strconv.UnquoteChar(src[i+1:j], '\'')
			if err != nil {
				return nil, fmt.Errorf("%s:%d: bad char %q", file, line, src[i:j+1])
			}
			toks = append(toks, tok{k: "char", n: int64(r), line: line})
			i = j + 1
		case c == '"':
			j := i + 1
			for j < len(src) && src[j] != '"' {
				if src[j] == '\\' {
					j++
				}
				j++
			}
			s, err := strconv.Unquote(src[i : j+1])
			if err != nil {
				return nil, fmt.Errorf("%s:%d: bad string", file, line)
			}
			toks = append(toks, tok{k: "str", s: s, line: line})
			i = j + 1
		default:
			ops := []string{"<==>", "==>", "::", "==", "!=", "<=", ">=", "&&", "||", "<<", ">>", "&^"}
			matched := false
			for _, op := range ops {
				if strings.HasPrefix(src[i:], op) {
					toks = append(toks, tok{k: "op", s: op, line: line})
					i += len(op)
					matched = true
					break
				}
			}
			if !matched {
				toks = append(toks, tok{k: "op", s: string(c), line: line})
				i++
			}
		}
	}
	toks = append(toks, tok{k: "eof", line: line})
	return toks, nil
}

// ---------- parser ----------

type sparser struct {
	toks []tok
	p    int
	file string
	pkg  string
}

func (p *sparser) peek() tok { return p.toks[p.p] }
func (p *sparser) next() tok  { t := p.toks[p.p]; p.p++; return t }
func (p *sparser) pos() string {
	return fmt.Sprintf("%s:%d", p.file, p.peek().line)
}
func (p *sparser) isOp(s string) bool { t := p.peek(); return t.k == "op" && t.s == s }
func (p *sparser) isKw(s string) bool { t := p.peek(); return t.k == "id" && t.s == s }
func (p *sparser) expectOp(s string) {
	t := p.next()
	if t.k != "op" || t.s != s {
		panic(fmt.Sprintf("%s:%d: expected %q, got %q", p.file, t.line, s, t.s))
	}
}
func (p *sparser) ident() string {
	t := p.next()
	if t.k != "id" {
		panic(fmt.Sprintf("%s:%d: expected identifier, got %q", p.file, t.line, t.s))
	}
	return t.s
}

// parseType reads a textual type: int, []byte, *pkg.Name, pkg.Name, [][]byte
func (p *sparser) parseType() string {
	var sb strings.Builder
	for {
		if p.isOp("*") {
			p.next()
			sb.WriteString("*")
			continue
		}
		if p.isOp("[") {
			p.next()
			p.expectOp("]")
			sb.WriteString("[]")
			continue
		}
		break
	}
	sb.WriteString(p.ident())
	if p.isOp(".") {
		p.next()
		sb.WriteString(".")
		sb.WriteString(p.ident())
	}
	return sb.String()
}

func (p *sparser) parseParams() []SParam {
	var ps []SParam
	p.expectOp("(")
	for !p.isOp(")") {
		n := p.ident()
		ty := p.parseType()
		ps = append(ps, SParam{n, ty})
		if p.isOp(",") {
			p.next()
		}
	}
	p.expectOp(")")
	return ps
}

func (p *sparser) expr() *SExpr { return p.iff() }

func (p *sparser) mk(op string) *SExpr { return &SExpr{Op: op, Pos: p.pos()} }

func (p *sparser) iff() *SExpr {
	l := p.implies()
	for p.isOp("<==>") {
		p.next()
		r := p.implies()
		l = &SExpr{Op: "bin", Name: "<==>", Args: []*SExpr{l, r}, Pos: l.Pos}
	}
	return l
}

func (p *sparser) implies() *SExpr {
	l := p.ternary()
	if p.isOp("==>") {
		p.next()
		r := p.implies()
		return &SExpr{Op: "bin", Name: "==>", Args: []*SExpr{l, r}, Pos: l.Pos}
	}
	return l
}

func (p *sparser) ternary() *SExpr {
	c := p.or()
	if p.isOp("?") {
		p.next()
		a := p.ternary()
		p.expectOp(":")
		b := p.ternary()
		return &SExpr{Op: "ite", Args: []*SExpr{c, a, b}, Pos: c.Pos}
	}
	return c
}

func (p *sparser) or() *SExpr {
	l := p.and()
	for p.isOp("||") {
		p.next()
		r := p.and()
		l = &SExpr{Op: "bin", Name: "||", Args: []*SExpr{l, r}, Pos: l.Pos}
	}
	return l
}

func (p *sparser) and() *SExpr {
	l := p.cmp()
	for p.isOp("&&") {
		p.next()
		r := p.cmp()
		l = &SExpr{Op: "bin", Name: "&&", Args: []*SExpr{l, r}, Pos: l.Pos}
	}
	return l
}

func (p *sparser) cmp() *SExpr {
	l := p.add()
	for {
		t := p.peek()
		if t.k == "op" && (t.s == "==" || t.s == "!=" || t.s == "<" || t.s == "<=" || t.s == ">" || t.s == ">=") {
			p.next()
			r := p.add()
			l = &SExpr{Op: "bin", Name: t.s, Args: []*SExpr{l, r}, Pos: l.Pos}
			continue
		}
		return l
	}
}

func (p *sparser) add() *SExpr {
	l := p.mul()
	for {
		t := p.peek()
		if t.k == "op" && (t.s == "+" || t.s == "-" || t.s == "|" || t.s == "^") {
			p.next()
			r := p.mul()
			l = &SExpr{Op: "bin", Name: t.s, Args: []*SExpr{l, r}, Pos: l.Pos}
			continue
		}
		return l
	}
}

func (p *sparser) mul() *SExpr {
	l := p.unary()
	for {
		t := p.peek()
		if t.k == "op" && (t.s == "*" || t.s == "/" || t.s == "%" || t.s == "&" || t.s == "<<" || t.s == ">>") {
			p.next()
			r := p.unary()
			l = &SExpr{Op: "bin", Name: t.s, Args: []*SExpr{l, r}, Pos: l.Pos}
			continue
		}
		return l
	}
}

func (p *sparser) unary() *SExpr {
	if p.isOp("!") {
		p.next()
		e := p.unary()
		return &SExpr{Op: "un", Name: "!", Args: []*SExpr{e}, Pos: e.Pos}
	}
	if p.isOp("-") {
		p.next()
		e := p.unary()
		return &SExpr{Op: "un", Name: "-", Args: []*SExpr{e}, Pos: e.Pos}
	}
	if p.isOp("*") {
		p.next()
		e := p.unary()
		return &SExpr{Op: "deref", Args: []*SExpr{e}, Pos: e.Pos}
	}
	return p.postfix()
}

func (p *sparser) postfix() *SExpr {
	e := p.primary()
	for {
		switch {
		case p.isOp("."):
			p.next()
			f := p.ident()
			e = &SExpr{Op: "sel", Name: f, Args: []*SExpr{e}, Pos: e.Pos}
		case p.isOp("["):
			p.next()
			var lo, hi *SExpr
			if !p.isOp(":") {
				lo = p.expr()
			}
			if p.isOp(":") {
				p.next()
				if !p.isOp("]") {
					hi = p.expr()
				}
				p.expectOp("]")
				e = &SExpr{Op: "slice", Args: []*SExpr{e, lo, hi}, Pos: e.Pos}
			} else {
				p.expectOp("]")
				e = &SExpr{Op: "idx", Args: []*SExpr{e, lo}, Pos: e.Pos}
			}
		case p.isOp("(") && (e.Op == "ident" || e.Op == "sel"):
			p.next()
			var args []*SExpr
			for !p.isOp(")") {
				args = append(args, p.expr())
				if p.isOp(",") {
					p.next()
				}
			}
			p.expectOp(")")
			name := e.Name
			if e.Op == "sel" {
				// pkg.fn(...) : qualified spec function
				name = e.Args[0].String() + "." + e.Name
			}
			if name == "old" {
				e = &SExpr{Op: "old", Args: args, Pos: e.Pos}
			} else {
				e = &SExpr{Op: "call", Name: name, Args: args, Pos: e.Pos}
			}
		default:
			return e
		}
	}
}

func (p *sparser) primary() *SExpr {
	t := p.peek()
	pos := p.pos()
	switch t.k {
	case "int":
		p.next()
		return &SExpr{Op: "int", Int: t.n, Pos: pos}
	case "char":
		p.next()
		return &SExpr{Op: "char", Int: t.n, Pos: pos}
	case "str":
		p.next()
		return &SExpr{Op: "str", Str: t.s, Pos: pos}
	case "id":
		if keywords[t.s] {
			panic(fmt.Sprintf("%s: unexpected keyword %q in expression", pos, t.s))
		}
		p.next()
		switch t.s {
		case "true":
			return &SExpr{Op: "bool", Int: 1, Pos: pos}
		case "false":
			return &SExpr{Op: "bool", Int: 0, Pos: pos}
		case "nil":
			return &SExpr{Op: "nil", Pos: pos}
		case "forall", "exists":
			var vs []SParam
			for {
				n := p.ident()
				ty := p.parseType()
				vs = append(vs, SParam{n, ty})
				if p.isOp(",") {
					p.next()
					continue
				}
				break
			}
			var trig [][]*SExpr
			for p.isOp("{") {
				p.next()
				var tr []*SExpr
				for !p.isOp("}") {
					tr = append(tr, p.expr())
					if p.isOp(",") {
						p.next()
					}
				}
				p.expectOp("}")
				trig = append(trig, tr)
			}
			p.expectOp("::")
			body := p.expr()
			return &SExpr{Op: t.s, Vars: vs, Trig: trig, Args: []*SExpr{body}, Pos: pos}
		}
		return &SExpr{Op: "ident", Name: t.s, Pos: pos}
	case "op":
		if t.s == "(" {
			p.next()
			e := p.expr()
			p.expectOp(")")
			return e
		}
	}
	panic(fmt.Sprintf("%s: unexpected token %q", pos, t.s))
}

// funcKey reads the key after "func"/"iface": Name | (*T).Name | T.Name | Name$1 | pkg.Iface.Method
func (p *sparser) funcKey() string {
	var sb strings.Builder
	if p.isOp("(") {
		p.next()
		sb.WriteString("(")
		if p.isOp("*") {
			p.next()
			sb.WriteString("*")
		}
		sb.WriteString(p.ident())
		p.expectOp(")")
		sb.WriteString(")")
		p.expectOp(".")
		sb.WriteString(".")
		sb.WriteString(p.ident())
		return sb.String()
	}
	sb.WriteString(p.ident())
	for p.isOp(".") {
		p.next()
		sb.WriteString(".")
		if p.isOp("(") { // pkg.(*T).M : a method of another package's type (trusted library table)
			p.next()
			sb.WriteString("(")
			if p.isOp("*") {
				p.next()
				sb.WriteString("*")
			}
			sb.WriteString(p.ident())
			p.expectOp(")")
			sb.WriteString(")")
			continue
		}
		sb.WriteString(p.ident())
	}
	return sb.String()
}

func (p *sparser) parseFile(sf *SpecFile) {
	for p.peek().k != "eof" {
		t := p.next()
		if t.k != "id" {
			panic(fmt.Sprintf("%s:%d: expected item keyword, got %q", p.file, t.line, t.s))
		}
		pos := fmt.Sprintf("%s:%d", p.file, t.line)
		switch t.s {
		case "fun":
			name := p.ident()
			ps := p.parseParams()
			ret := p.parseType()
			p.expectOp("=")
			body := p.expr()
			sf.Funs = append(sf.Funs, &SpecFun{Name: name, Params: ps, Ret: ret, Body: body, Pkg: p.pkg, Pos: pos})
		case "ghost":
			isVar := false
			if p.isKw("var") {
				p.next()
				isVar = true
			}
			name := p.ident()
			ps := p.parseParams()
			ret := p.parseType()
			sf.Funs = append(sf.Funs, &SpecFun{Name: name, Params: ps, Ret: ret, IsVar: isVar, Pkg: p.pkg, Pos: pos})
		case "macro":
			name := p.ident()
			p.expectOp("(")
			var ps []string
			for !p.isOp(")") {
				ps = append(ps, p.ident())
				if p.isOp(",") {
					p.next()
				}
			}
			p.expectOp(")")
			p.expectOp("=")
			body := p.expr()
			sf.Macros = append(sf.Macros, &SpecMacro{Name: name, Params: ps, Body: body})
		case "globalinv":
			sf.GlobalInvs = append(sf.GlobalInvs, p.ident())
		case "absmacro":
			abs := p.ident()
			name := p.ident()
			p.expectOp("(")
			var ps []string
			for !p.isOp(")") {
				ps = append(ps, p.ident())
				if p.isOp(",") {
					p.next()
				}
			}
			p.expectOp(")")
			p.expectOp("=")
			body := p.expr()
			if sf.AbsMacros == nil {
				sf.AbsMacros = map[string][]*SpecMacro{}
			}
			sf.AbsMacros[abs] = append(sf.AbsMacros[abs], &SpecMacro{Name: name, Params: ps, Body: body})
		case "axiom", "defaxiom":
			name := p.ident()
			p.expectOp(":")
			e := p.expr()
			sf.Axioms = append(sf.Axioms, &Axiom{Name: name, E: e, Pkg: p.pkg, Pos: pos, Def: t.s == "defaxiom"})
		case "typeinv":
			ty := p.parseType()
			p.expectOp("{")
			for !p.isOp("}") {
				cpos := p.pos()
				e := p.expr()
				sf.Invs[ty] = append(sf.Invs[ty], Clause{E: e, Pos: cpos})
				if p.isOp(";") {
					p.next()
				}
			}
			p.expectOp("}")
		case "func", "iface":
			fs := &FuncSpec{Key: p.funcKey(), Pkg: p.pkg, IsIface: t.s == "iface", Loops: map[int]*LoopSpec{}, Pos: pos}
			p.parseClauses(fs)
			sf.Funcs = append(sf.Funcs, fs)
		default:
			panic(fmt.Sprintf("%s: unknown item %q", pos, t.s))
		}
	}
}

func (p *sparser) label() string {
	// optional [label]
	if p.isOp("[") {
		p.next()
		var sb strings.Builder
		for !p.isOp("]") {
			sb.WriteString(p.next().s)
		}
		p.next()
		return sb.String()
	}
	return ""
}

func (p *sparser) parseClauses(fs *FuncSpec) {
	for {
		t := p.peek()
		if t.k != "id" {
			return
		}
		pos := p.pos()
		switch t.s {
		case "requires":
			p.next()
			lb := p.label()
			fs.Requires = append(fs.Requires, Clause{E: p.expr(), Pos: pos, Name: lb})
		case "ensures":
			p.next()
			lb := p.label()
			fs.Ensures = append(fs.Ensures, Clause{E: p.expr(), Pos: pos, Name: lb})
		case "callassert":
			p.next()
			lb := p.label()
			callee := p.funcKey()
			n := 1
			if p.isOp("#") {
				p.next()
				t := p.next()
				n = int(t.n)
			}
			p.expectOp(":")
			fs.CallAsserts = append(fs.CallAsserts, CallAssert{Callee: callee, N: n, E: p.expr(), Name: lb, Pos: pos})
		case "callupdate":
			// callupdate Callee#n: ghost(params) = expr   -- ghost assignment executed just before the n-th call of Callee
			// (expr sees the locals and the ghost state at that point; several at one site are simultaneous)
			p.next()
			callee := p.funcKey()
			n := 1
			if p.isOp("#") {
				p.next()
				t := p.next()
				n = int(t.n)
			}
			p.expectOp(":")
			gname := p.ident()
			p.expectOp("(")
			var ps []string
			for !p.isOp(")") {
				ps = append(ps, p.ident())
				if p.isOp(",") {
					p.next()
				}
			}
			p.expectOp(")")
			p.expectOp("=")
			fs.CallAsserts = append(fs.CallAsserts, CallAssert{Callee: callee, N: n, Pos: pos, Upd: &Update{Ghost: gname, Params: ps, Body: p.expr(), Pos: pos}})
		case "hint":
			p.next()
			lb := p.label()
			fs.Hints = append(fs.Hints, Clause{E: p.expr(), Pos: pos, Name: lb})
		case "assume":
			p.next()
			fs.Assumes = append(fs.Assumes, Clause{E: p.expr(), Pos: pos})
		case "trusted":
			p.next()
			fs.Trusted = true
		case "bodyspec":
			// a second contract for the same function, used only to verify its body (call sites keep using the
			// primary contract, e.g. a claim-free `modifies everything` summary)
			p.next()
			fs.BodySpec = true
		case "purefunc", "detfunc":
			// detfunc p: like purefunc, and the result of p is a function of its arguments alone (an assumption about
			// the functions passed in, stated in the evidence); specs name that result as funres(p, args...)
			det := t.s == "detfunc"
			p.next()
			for {
				if det {
					fs.DetParams = append(fs.DetParams, p.peek().s)
				}
				fs.PureParams = append(fs.PureParams, p.ident())
				if p.isOp(",") {
					p.next()
					continue
				}
				break
			}
		case "refines":
			p.next()
			fs.RefinesIface = p.funcKey()
			if p.peek().k == "id" && p.peek().s == "via" {
				p.next()
				fs.RefinesAbs = p.ident()
			}
		case "nilable":
			p.next()
			for {
				if fs.Nilable == nil {
					fs.Nilable = map[string]bool{}
				}
				fs.Nilable[p.ident()] = true
				if p.isOp(",") {
					p.next()
					continue
				}
				break
			}
		case "nonnil":
			p.next()
			for {
				fs.NoNil = append(fs.NoNil, p.ident())
				if p.isOp(",") {
					p.next()
					continue
				}
				break
			}
		case "uses":
			p.next()
			for {
				fs.Uses = append(fs.Uses, p.ident())
				if p.isOp(",") {
					p.next()
					continue
				}
				break
			}
		case "modifies":
			p.next()
			fs.HasMod = true
			for {
				if p.isKw("nothing") {
					p.next()
				} else if p.isKw("everything") {
					p.next()
					fs.ModAll = true
				} else {
					e := p.postfix()
					fs.Modifies = append(fs.Modifies, e.String())
				}
				if p.isOp(",") {
					p.next()
					continue
				}
				break
			}
		case "updates", "bridge", "postupdates":
			isBridge := t.s == "bridge"
			isPost := t.s == "postupdates"
			p.next()
			g := p.ident()
			p.expectOp("(")
			var ps []string
			for !p.isOp(")") {
				ps = append(ps, p.ident())
				if p.isOp(",") {
					p.next()
				}
			}
			p.expectOp(")")
			p.expectOp("=")
			if isPost {
				fs.PostUpdates = append(fs.PostUpdates, Update{Ghost: g, Params: ps, Body: p.expr(), Pos: pos})
			} else if isBridge {
				fs.Bridges = append(fs.Bridges, Update{Ghost: g, Params: ps, Body: p.expr(), Pos: pos})
			} else {
				fs.Updates = append(fs.Updates, Update{Ghost: g, Params: ps, Body: p.expr(), Pos: pos})
			}
		case "loop":
			p.next()
			n := p.next()
			if n.k != "int" {
				panic(fmt.Sprintf("%s: loop ordinal expected", pos))
			}
			ls := fs.Loops[int(n.n)]
			if ls == nil {
				ls = &LoopSpec{}
				fs.Loops[int(n.n)] = ls
			}
			k := p.ident()
			switch k {
			case "inv":
				lb := p.label()
				ls.Inv = append(ls.Inv, Clause{E: p.expr(), Pos: pos, Name: lb})
			case "dec":
				ls.Dec = p.expr()
			default:
				panic(fmt.Sprintf("%s: loop clause must be inv or dec", pos))
			}
		default:
			return
		}
	}
}

// ParseSpecText parses the concatenated /*@ @*/ blocks of one file.
func ParseSpecText(src string, line0 int, file, pkg string, sf *SpecFile) (err error) {
	defer func() {
		if r := recover(); r != nil {
			err = fmt.Errorf("%v", r)
		}
	}()
	toks, e := lex(src, line0, file)
	if e != nil {
		return e
	}
	p := &sparser{toks: toks, file: file, pkg: pkg}
	p.parseFile(sf)
	return nil
}

// substitute macro params
func substExpr(e *SExpr, m map[string]*SExpr) *SExpr {
	if e == nil {
		return nil
	}
	if e.Op == "ident" {
		if r, ok := m[e.Name]; ok {
			return r
		}
		return e
	}
	c := *e
	c.Args = make([]*SExpr, len(e.Args))
	if e.Op == "forall" || e.Op == "exists" {
		// shadowing
		m2 := map[string]*SExpr{}
		for k, v := range m {
			m2[k] = v
		}
		for _, v := range e.Vars {
			delete(m2, v.Name)
		}
		m = m2
		// capture avoidance: a bound variable that occurs in a substituted argument is renamed
		ren := map[string]*SExpr{}
		var nv []SParam
		for _, v := range e.Vars {
			clash := false
			for _, r := range m {
				if mentions(r, v.Name) {
					clash = true
				}
			}
			if clash {
				fresh := v.Name + "_b"
				for {
					again := false
					for _, r := range m {
						if mentions(r, fresh) {
							again = true
						}
					}
					if !again {
						break
					}
					fresh += "_b"
				}
				ren[v.Name] = &SExpr{Op: "ident", Name: fresh, Pos: e.Pos}
				nv = append(nv, SParam{fresh, v.Type})
			} else {
				nv = append(nv, v)
			}
		}
		if len(ren) > 0 {
			e2 := *e
			e2.Vars = nil // plain renaming pass over body and triggers (no shadowing of the renamed names)
			e2.Op = "rename"
			body := substExpr(&SExpr{Op: "tuple", Args: e.Args}, ren)
			var trig [][]*SExpr
			for _, tr := range e.Trig {
				var ntr []*SExpr
				for _, t := range tr {
					ntr = append(ntr, substExpr(t, ren))
				}
				trig = append(trig, ntr)
			}
			e = &SExpr{Op: e.Op, Vars: nv, Args: body.Args, Trig: trig, Pos: e.Pos, Name: e.Name}
			c = *e
			c.Args = make([]*SExpr, len(e.Args))
		}
		c.Trig = nil
		for _, tr := range e.Trig {
			var ntr []*SExpr
			for _, t := range tr {
				ntr = append(ntr, substExpr(t, m))
			}
			c.Trig = append(c.Trig, ntr)
		}
	}
	for i, a := range e.Args {
		c.Args[i] = substExpr(a, m)
	}
	return &c
}
