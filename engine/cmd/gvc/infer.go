package main

import (
	"go/types"

	"golang.org/x/tools/go/ssa"
)

// returnsFreshNonNil: the function has a single pointer/interface result and every return statement
// returns the address of an object allocated in the function itself (possibly wrapped in an interface,
// possibly after storing into it).  Then the result is never nil - a fact read off the SSA, used for
// callees that have no contract (constructors such as ast.NewParagraph).
func (P *Program) returnsFreshNonNil(fn *ssa.Function) bool {
	if P.freshNonNil == nil {
		P.freshNonNil = map[*ssa.Function]int{}
	}
	if v, ok := P.freshNonNil[fn]; ok {
		return v == 1
	}
	P.freshNonNil[fn] = 2 // in progress / no
	ok := fn.Blocks != nil && fn.Signature.Results().Len() == 1
	nret := 0
	if ok {
		for _, b := range fn.Blocks {
			for _, in := range b.Instrs {
				r, isRet := in.(*ssa.Return)
				if !isRet {
					continue
				}
				nret++
				if len(r.Results) != 1 || !P.valueIsFreshAlloc(r.Results[0], fn, 0) {
					ok = false
				}
			}
		}
	}
	if ok && nret > 0 {
		P.freshNonNil[fn] = 1
		return true
	}
	return false
}

func (P *Program) valueIsFreshAlloc(v ssa.Value, fn *ssa.Function, depth int) bool {
	if depth > 6 {
		return false
	}
	switch x := v.(type) {
	case *ssa.Alloc:
		return true
	case *ssa.MakeInterface:
		return P.valueIsFreshAlloc(x.X, fn, depth+1)
	case *ssa.ChangeInterface:
		return P.valueIsFreshAlloc(x.X, fn, depth+1)
	case *ssa.ChangeType:
		return P.valueIsFreshAlloc(x.X, fn, depth+1)
	case *ssa.Phi:
		for _, e := range x.Edges {
			if !P.valueIsFreshAlloc(e, fn, depth+1) {
				return false
			}
		}
		return true
	case *ssa.UnOp:
		// load of a local variable that is only ever assigned fresh allocations
		if a, ok := x.X.(*ssa.Alloc); ok && allocIsVariable(a) {
			n := 0
			for _, ref := range *a.Referrers() {
				if st, ok := ref.(*ssa.Store); ok && st.Addr == a {
					n++
					if !P.valueIsFreshAlloc(st.Val, fn, depth+1) {
						return false
					}
				}
			}
			return n > 0
		}
	case *ssa.Call:
		if callee, ok := x.Common().Value.(*ssa.Function); ok && !x.Common().IsInvoke() {
			return P.returnsFreshNonNil(callee)
		}
	}
	return false
}

func pointerFree(t types.Type) bool {
	switch u := t.Underlying().(type) {
	case *types.Basic:
		return u.Info()&types.IsString == 0 && u.Kind() != types.UnsafePointer
	case *types.Struct:
		for i := 0; i < u.NumFields(); i++ {
			if !pointerFree(u.Field(i).Type()) {
				return false
			}
		}
		return true
	case *types.Array:
		return pointerFree(u.Elem())
	}
	return false
}

func isZeroConst(v ssa.Value) bool {
	c, ok := v.(*ssa.Const)
	return ok && (c.Value == nil)
}
