package main

import (
	"fmt"
	"go/token"
	"go/types"
	"strings"
)

// ---------- write-frame hooks (C12: caller-owned byte arrays are never written) ----------
//
// owned(s) for a byte slice s in function F:  arr(s) == 0  ||  arr(s) was allocated after F's entry
// || writable(arr(s)), where `writable` is a rigid uninterpreted predicate that only a `requires
// owned(x)` clause of F can establish.  Every store / in-place append / copy into a byte array must
// target an owned array.

func (g *Gen) writableSym() string {
	g.declareOnce("writable", "(declare-fun writable (Int) Bool)\n(assert (forall ((a Int)) (! (=> (< a 0) (not (writable a))) :pattern ((writable a)))))")
	return "writable"
}

func (g *Gen) ownedTerm(arr string, atEntry bool) string {
	w := "(" + g.writableSym() + " " + arr + ")"
	if atEntry {
		return or(eq(arr, "0"), w)
	}
	return or(eq(arr, "0"), "(>= "+arr+" "+g.abrk(g.entry)+")", w)
}

func isByteElem(t types.Type) bool {
	return t != nil && kindOf(t) == KInt && intBits(t) == 8
}

func hooksByName(P *Program, name string) *Hooks {
	switch name {
	case "":
		return nil
	case "safety":
		return &Hooks{paramsNonNil: true}
	case "rowrite":
		return &Hooks{
			onStore: func(g *Gen, st *State, p *Val, pos token.Pos, text string) {
				if p.K != KElemPtr || !isByteElem(deref(p.T)) {
					return
				}
				if strings.HasPrefix(p.Arr, "(|arrof!") {
					return // an array embedded in a struct: a field of that object, not a byte buffer handed in
				}
				g.oblige("frame-store", text, pos, st.reach, g.ownedTerm(p.Arr, false))
			},
			onExtWrite: func(g *Gen, st *State, s *Val, pos token.Pos, text string) {
				if s.K != KSlice || !isByteElem(elemTypeOf(s.T)) {
					return
				}
				g.oblige("frame-store", "library call writes "+text, pos, st.reach, or(eq(s.Len, "0"), g.ownedTerm(s.Arr, false)))
			},
			onAppend: func(g *Gen, st *State, s *Val, n string, pos token.Pos, text string) {
				if !isByteElem(elemTypeOf(s.T)) {
					return
				}
				inplace := "(<= (+ " + s.Len + " " + n + ") " + s.Cap + ")"
				g.oblige("frame-store", text, pos, st.reach, or(not(inplace), eq(n, "0"), g.ownedTerm(s.Arr, false)))
			},
			onCopy: func(g *Gen, st *State, d *Val, n string, pos token.Pos, text string) {
				if !isByteElem(elemTypeOf(d.T)) {
					return
				}
				g.oblige("frame-store", text, pos, st.reach, or(eq(n, "0"), g.ownedTerm(d.Arr, false)))
			},
		}
	}
	panic(fmt.Sprintf("unknown hook set %q", name))
}
