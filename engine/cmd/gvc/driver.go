package main

import (
	"fmt"
	"os"
	"go/ast"
	"go/token"
	"go/types"
	"sort"
	"strings"

	"golang.org/x/tools/go/ssa"
)

const prelude = `(set-logic ALL)
(declare-fun strkey ((Array Int Int) Int Int) Int)
(declare-fun strc (Int Int) Int)
(declare-fun ifptr (Int) Int)
(declare-fun ifval (Int) Int)
(declare-fun iftype (Int) Int)
(declare-fun ifsarr (Int) Int)
(declare-fun ifsoff (Int) Int)
(declare-fun ifslen (Int) Int)
(declare-fun ifscap (Int) Int)
(declare-fun subtag (Int) Int)
(declare-fun arrtag (Int) Int)
(declare-fun band (Int Int) Int)
(declare-fun bor (Int Int) Int)
(declare-fun bxor (Int Int) Int)
(declare-fun bandnot (Int Int) Int)
(declare-fun shl (Int Int) Int)
(declare-fun shr (Int Int) Int)
(declare-fun maplen (Int Int) Int)
(declare-fun objroot (Int) Int)
(declare-fun inarr (Int) Int)
(assert (forall ((p Int)) (! (=> (> p 0) (and (= (objroot p) p) (= (inarr p) 0))) :pattern ((objroot p)))))
(assert (forall ((p Int)) (! (=> (> p 0) (= (inarr p) 0)) :pattern ((inarr p)))))
(define-fun godiv ((a Int) (b Int)) Int (ite (>= a 0) (ite (> b 0) (div a b) (- (div a (- b)))) (ite (> b 0) (- (div (- a) b)) (div (- a) (- b)))))
(define-fun gomod ((a Int) (b Int)) Int (- a (* b (godiv a b))))
`

type FuncResult struct {
	Fn          *ssa.Function
	Name        string
	Spec        *FuncSpec
	Unsupported string
	Obls        []*Obl
	Canary      string // "ok" | "VACUOUS" | ""
	Notes       []string
	Havocked    []string
	NAssume     int
	Lines       int
	UnboundLoops []int
	gen *Gen
	sweepOnly bool
	listed    bool // named in the property's function list (a listed function that cannot be translated fails)
}

func (P *Program) NewGen(fn *ssa.Function, spec *FuncSpec) *Gen {
	g := &Gen{P: P, fn: fn, spec: spec,
		declared: map[string]bool{}, vals: map[ssa.Value]*Val{}, params: map[string]*Val{},
		escaping: map[*ssa.Alloc]bool{}, heapSort: map[string]string{}, baseSyms: map[string]string{},
		oblNames: map[string]int{}, loopOrd: map[*ssa.BasicBlock]int{}, loops: map[*ssa.BasicBlock]*loopInfo{},
		strConsts: map[string]string{}, localsByName: map[string][]*ssa.Alloc{}, knownNonNil: map[string]bool{}, checkedNonNil: map[string][]*ssa.BasicBlock{},
		out: map[*ssa.BasicBlock]*State{}, usedSpecs: map[string]bool{}, cands: map[*ssa.BasicBlock][]*candInv{},
		joinParts: map[string][]string{}, callCount: map[string]int{}, autoInvs: map[int][]Clause{}, variantAtHead: map[*ssa.BasicBlock]string{}, heapKind: map[string]Kind{},
	}
	return g
}

// Verify generates all obligations of fn against spec (spec may be nil: safety sweep only).
func (P *Program) Verify(fn *ssa.Function, spec *FuncSpec, hooks *Hooks) (res *FuncResult) {
	g := P.NewGen(fn, spec)
	if hooks != nil {
		g.onStore, g.onAppend, g.onCopy = hooks.onStore, hooks.onAppend, hooks.onCopy
		g.hooks = hooks
		if hooks.autoInvs != nil {
			g.autoInvs = hooks.autoInvs
		}
	}
	res = &FuncResult{Fn: fn, Name: fnDisplayName(fn), Spec: spec}
	defer func() {
		if r := recover(); r != nil {
			if os.Getenv("GVC_PANIC") != "" {
				panic(r)
			}
			if u, ok := r.(unsupported); ok {
				if g.curInstr != nil && g.curInstr.Pos().IsValid() {
					u.why += fmt.Sprintf(" (near %s)", P.fset.Position(g.curInstr.Pos()))
				}
				res.Unsupported = u.why
				res.Obls = nil
				return
			}
			res.Unsupported = fmt.Sprintf("internal: %v", r)
			res.Obls = nil
		}
	}()
	g.run()
	res.Obls = g.obls
	res.Notes = g.notes
	res.Havocked = g.havocked
	res.NAssume = g.nAssume
	res.Lines = len(g.lines)
	res.gen = g
	return res
}

func (g *Gen) run() {
	fn := g.fn
	if fn.Blocks == nil {
		unsup("no body")
	}
	g.buildSrcText()
	for _, b := range fn.Blocks {
		for _, in := range b.Instrs {
			switch x := in.(type) {
			case *ssa.Alloc:
				if !allocIsVariable(x) {
					g.escaping[x] = true
				}
				if x.Comment != "" {
					g.localsByName[x.Comment] = append(g.localsByName[x.Comment], x)
				}
			case *ssa.Go, *ssa.Defer, *ssa.Select, *ssa.Send:
				unsup("concurrency/defer construct %T", in)
			case *ssa.MultiConvert:
				unsup("generic conversion")
			}
		}
	}
	g.nbase = 0
	entry := &State{reach: "true", vars: map[*ssa.Alloc]*Val{}, heap: &Heap{m: map[string]string{}, base: &heapBase{id: 0}}}
	g.entry = entry
	// parameters
	for i, p := range fn.Params {
		v := g.freshVal("p_"+p.Name(), p.Type())
		g.typeFacts(entry, v, "true")
		g.vals[p] = v
		g.params[p.Name()] = v
		if i == 0 && fn.Signature.Recv() != nil && v.K == KPtr {
			g.assume("true", not(eq(v.S, "0")))
			g.knownNonNil[v.S] = true
			g.notes = append(g.notes, "receiver assumed non-nil")
		} else if g.hooks != nil && g.hooks.paramsNonNil && (v.K == KPtr || v.K == KIface) && fn.Parent() == nil &&
			!(g.spec != nil && g.spec.Nilable[p.Name()]) {
			g.assume("true", not(eq(v.S, "0")))
			g.knownNonNil[v.S] = true
		}
	}
	// the entry byte memory is declared up front so that replay queries can read parameter contents
	g.entryByteMem = g.memSym(entry, types.Typ[types.Uint8], "", KInt)
	// package-level variables and arrays have the small ids 100+tag; everything allocated at run time is above
	g.emit("(assert (and (> " + g.brk(entry) + " 1000000) (> " + g.abrk(entry) + " 1000000)))")
	for _, fv := range fn.FreeVars {
		v := g.freshVal("fv_"+fv.Name(), fv.Type())
		g.typeFacts(entry, v, "true")
		if v.K == KPtr {
			g.assume("true", "(> "+v.S+" 0)")
			g.knownNonNil[v.S] = true
		}
		g.vals[fv] = v
		g.params[fv.Name()] = v
	}
	// distinct captured cells
	if len(fn.FreeVars) > 1 {
		var ts []string
		for _, fv := range fn.FreeVars {
			if v := g.vals[fv]; v.K == KPtr {
				ts = append(ts, v.S)
			}
		}
		if len(ts) > 1 {
			g.emit("(assert (distinct " + strings.Join(ts, " ") + "))")
		}
	}
	if g.spec != nil {
		env := g.specEnv(entry, entry)
		for _, n := range g.spec.NoNil {
			if v, ok := g.params[n]; ok {
				g.assume("true", not(eq(v.S, "0")))
				g.knownNonNil[v.S] = true
			}
		}
		env.atEntry = true
		for _, cl := range g.spec.Requires {
			g.assume("true", g.evalBool(env, g.P.expand(cl.E)))
		}
		for _, cl := range g.spec.RefinesPre {
			for _, part := range splitGoal(g.P.expand(cl.E)) {
				lb := cl.Name
				if lb == "" {
					lb = part.String()
				}
				g.oblige("refines-pre", lb, token.NoPos, "true", g.evalBool(env, part))
			}
			g.assume("true", g.evalBool(env, g.P.expand(cl.E)))
		}
		env.atEntry = false
		for _, cl := range g.spec.Assumes {
			g.assume("true", g.evalBool(env, g.P.expand(cl.E)))
			g.nAssume++
		}
		for _, ax := range g.spec.Uses {
			found := false
			for _, a := range g.P.axioms {
				if a.Name == ax {
					aenv := g.newEnv(entry, entry, a.Pkg)
					g.assume("true", g.evalBool(aenv, g.P.expand(a.E)))
					found = true
				}
			}
			if !found {
				unsup("uses unknown axiom %s", ax)
			}
		}
	}
	if g.isPkgInit() && g.hooks != nil && g.hooks.sliceGlobals != nil {
		g.computeInitSlice(g.hooks.sliceGlobals)
	}
	g.findLoops()
	order := g.topoOrder()
	for _, b := range order {
		g.block(b)
	}
	// unbound loop clauses / call assertions
	if g.spec != nil {
		for i := range g.spec.CallAsserts {
			ca := &g.spec.CallAsserts[i]
			if !ca.bound {
				g.oblige("bind", fmt.Sprintf("callassert %s#%d", ca.Callee, ca.N), token.NoPos, "true", "false")
			}
			ca.bound = false
		}
		for ord := range g.spec.Loops {
			found := false
			for _, li := range g.loops {
				if li.ord == ord {
					found = true
				}
			}
			if !found {
				// invariants and variants are proof aids for a loop; when the loop no longer exists they are moot (every
				// postcondition, call-site assertion and safety obligation of the function is still generated and must
				// discharge without them), so this is reported as a note, not as a failed obligation
				g.notes = append(g.notes, fmt.Sprintf("contract clauses for loop %d dropped: the function has no such loop any more", ord))
			}
		}
	}
}

func (g *Gen) specEnv(cur, old *State) *Env {
	pkg := ""
	if g.spec != nil {
		pkg = g.spec.Pkg
	} else if g.fn.Pkg != nil {
		pkg = g.fn.Pkg.Pkg.Path()
	}
	env := g.newEnv(cur, old, pkg)
	for k, v := range g.params {
		env.vars[k] = v
	}
	return env
}

// ---------- CFG ----------

func (g *Gen) isBackEdge(from, to *ssa.BasicBlock) bool {
	return to.Dominates(from)
}

func (g *Gen) findLoops() {
	fn := g.fn
	for _, b := range fn.Blocks {
		for _, s := range b.Succs {
			if g.isBackEdge(b, s) {
				li := g.loops[s]
				if li == nil {
					li = &loopInfo{head: s, blocks: map[*ssa.BasicBlock]bool{s: true}, modVars: map[*ssa.Alloc]bool{}, modHeap: map[string]bool{}}
					g.loops[s] = li
				}
				li.backs = append(li.backs, b)
				// natural loop body
				stack := []*ssa.BasicBlock{b}
				for len(stack) > 0 {
					x := stack[len(stack)-1]
					stack = stack[:len(stack)-1]
					if li.blocks[x] {
						continue
					}
					li.blocks[x] = true
					for _, p := range x.Preds {
						stack = append(stack, p)
					}
				}
			}
		}
	}
	var heads []*ssa.BasicBlock
	for h := range g.loops {
		heads = append(heads, h)
	}
	// order loops by source position of the loop statement
	stmtPos := g.loopStmtPositions()
	sort.Slice(heads, func(i, j int) bool { return g.loopKey(heads[i], stmtPos) < g.loopKey(heads[j], stmtPos) })
	for i, h := range heads {
		g.loops[h].ord = i
	}
	for _, li := range g.loops {
		ms := &ModSet{Names: map[string]bool{}}
		for b := range li.blocks {
			for _, in := range b.Instrs {
				if s, ok := in.(*ssa.Store); ok {
					if ra := rootAlloc(s.Addr); ra != nil && !g.escaping[ra] {
						li.modVars[ra] = true
					}
				}
			}
		}
		g.P.blocksModSet(g.fn, li.blocks, g.escaping, ms)
		li.modAll = ms.All
		li.modHeap = ms.Names
	}
	// ghost assignments (`callupdate`) change their ghost variable in every loop that contains the call site
	if g.spec != nil {
		hasUpd := false
		for i := range g.spec.CallAsserts {
			if g.spec.CallAsserts[i].Upd != nil {
				hasUpd = true
			}
		}
		if hasUpd {
			count := map[string]int{}
			for _, b := range g.topoOrder() {
				for _, in := range b.Instrs {
					c, ok := in.(*ssa.Call)
					if !ok {
						continue
					}
					name := callSiteName(c.Common())
					if name == "" {
						continue
					}
					count[name]++
					for i := range g.spec.CallAsserts {
						ca := &g.spec.CallAsserts[i]
						if ca.Upd == nil || ca.Callee != name || ca.N != count[name] {
							continue
						}
						if gf := g.P.ghostVar(ca.Upd.Ghost); gf != nil {
							for _, li := range g.loops {
								if li.blocks[b] {
									li.modHeap["ghost|"+gf.Name] = true
								}
							}
						}
					}
				}
			}
		}
	}
}

// callSiteName: the name under which `callassert` / `callupdate` clauses address a call ("" = not addressable)
func callSiteName(cc *ssa.CallCommon) string {
	if _, ok := cc.Value.(*ssa.Builtin); ok {
		return ""
	}
	if cc.IsInvoke() {
		return typeName(cc.Value.Type()) + "." + cc.Method.Name()
	}
	if fn, ok := cc.Value.(*ssa.Function); ok {
		return fnDisplayName(fn)
	}
	return ""
}

// loopKey: position used for ordering loops = smallest position of any instruction in the header or,
// failing that, block index.
func (g *Gen) loopKey(h *ssa.BasicBlock, stmtPos []token.Pos) int {
	li := g.loops[h]
	min := token.Pos(1 << 40)
	for b := range li.blocks {
		for _, in := range b.Instrs {
			if p := in.Pos(); p.IsValid() && p < min {
				min = p
			}
		}
	}
	// snap to the enclosing loop statement start if any
	best := token.NoPos
	for _, sp := range stmtPos {
		if sp <= min && sp > best {
			best = sp
		}
	}
	if best.IsValid() {
		// several loops may snap to the same statement only if nested statements are missing; add block index as tiebreak
		return int(best)*100000 - len(li.blocks)
	}
	return int(min)*100000 + h.Index
}

func (g *Gen) loopStmtPositions() []token.Pos {
	var ps []token.Pos
	syn := g.fn.Syntax()
	if syn == nil {
		return nil
	}
	var body ast.Node = syn
	if fl, ok := syn.(*ast.FuncLit); ok {
		body = fl.Body
	} else if fd, ok := syn.(*ast.FuncDecl); ok {
		body = fd.Body
	}
	if body == nil {
		return nil
	}
	ast.Inspect(body, func(n ast.Node) bool {
		switch x := n.(type) {
		case *ast.FuncLit:
			return false
		case *ast.ForStmt:
			ps = append(ps, x.Pos())
		case *ast.RangeStmt:
			ps = append(ps, x.Pos())
		case *ast.LabeledStmt:
			ps = append(ps, x.Pos())
		}
		return true
	})
	return ps
}

func (P *Program) blocksModSet(fn *ssa.Function, blocks map[*ssa.BasicBlock]bool, esc map[*ssa.Alloc]bool, ms *ModSet) {
	for b := range blocks {
		for _, in := range b.Instrs {
			switch x := in.(type) {
			case *ssa.Store:
				P.addStoreTarget(ms, x.Addr, esc)
			case *ssa.MapUpdate:
				mt := typeName(x.Map.Type())
				ms.Names["Map|"+mt+"|has"] = true
				P.addLeafNames(ms, "Map|"+mt+"|val", x.Map.Type().Underlying().(*types.Map).Elem(), true)
			case *ssa.Alloc:
				if esc[x] {
					P.addAllLeaves(ms, deref(x.Type()))
				}
			case *ssa.Call:
				cc := x.Common()
				if bi, ok := cc.Value.(*ssa.Builtin); ok {
					switch bi.Name() {
					case "append", "copy":
						et := elemTypeOf(cc.Args[0].Type())
						if kindOf(et) == KStruct {
							P.addAllLeaves(ms, et)
						} else if kindOf(et) != KArray {
							P.addLeafNames(ms, "M|"+typeName(et), et, true)
						} else {
							ms.All = true
						}
					case "delete":
						ms.Names["Map|"+typeName(cc.Args[0].Type())+"|has"] = true
					}
					continue
				}
				if cc.IsInvoke() {
					if sp := P.specs[ifaceKey(cc)]; sp != nil && sp.HasMod {
						// declared frame of an interface contract: the ghost variables it names (and updates) plus
						// the inferred write sets of the implementations inside the module (implementations outside
						// are assumed to respect the declared frame, which only names fields those sets contain)
						for _, it := range sp.Modifies {
							if gf := P.ghostVar(it); gf != nil {
								ms.Names["ghost|"+gf.Name] = true
							}
						}
						for _, u := range sp.Updates {
							ms.Names["ghost|"+u.Ghost] = true
						}
						for _, u := range sp.PostUpdates {
							ms.Names["ghost|"+u.Ghost] = true
						}
						if len(sp.Modifies) > 0 {
							ms.merge(P.invokeModSet(cc))
						}
						continue
					}
					ms.merge(P.invokeModSet(cc))
					continue
				}
				if callee, ok := cc.Value.(*ssa.Function); ok {
					if sp := P.specs[specKeyOf(callee)]; sp != nil && sp.HasMod {
						P.declaredModNames(sp, ms)
						for _, u := range sp.Updates {
							ms.Names["ghost|"+u.Ghost] = true
						}
						for _, u := range sp.PostUpdates {
							ms.Names["ghost|"+u.Ghost] = true
						}
						continue
					}
					if sp := P.specs[specKeyOf(callee)]; sp != nil {
						for _, u := range sp.Updates {
							ms.Names["ghost|"+u.Ghost] = true
						}
						for _, u := range sp.PostUpdates {
							ms.Names["ghost|"+u.Ghost] = true
						}
					}
					ms.merge(P.modSetOf(callee))
					continue
				}
				// a call of a function-typed parameter declared purefunc/detfunc has no effect
				if prm := funcParamOf(cc.Value); prm != nil {
					if sp := P.bodySpecOf(fn); sp != nil {
						pure := false
						for _, pp := range sp.PureParams {
							if pp == prm.Name() {
								pure = true
							}
						}
						if pure {
							continue
						}
					}
				}
				ms.All = true
			case *ssa.MakeSlice, *ssa.MakeMap, *ssa.MakeClosure, *ssa.Convert:
				// allocation only
			}
		}
	}
	ms.Names["brk"] = true
	ms.Names["abrk"] = true
}

// declaredModNames over-approximates a declared modifies clause by whole heap arrays (used for loop havoc).
func (P *Program) declaredModNames(sp *FuncSpec, ms *ModSet) {
	if len(sp.Modifies) == 0 {
		return
	}
	// conservative: the callee's inferred set (declared locations are a subset of it); ghost vars by name
	onlyGhost := true
	for _, it := range sp.Modifies {
		if gf := P.ghostVar(it); gf != nil {
			ms.Names["ghost|"+gf.Name] = true
		} else if it != "nothing" {
			onlyGhost = false
		}
	}
	if onlyGhost && !sp.ModAll {
		// the declared frame names ghost state only: no heap array is written
		return
	}
	if fn := P.funcs[sp.Pkg+"::"+sp.Key]; fn != nil {
		ms.merge(P.modSetOf(fn))
	} else {
		// interface contract: union of implementations
		ms.All = true
	}
}

func (g *Gen) topoOrder() []*ssa.BasicBlock {
	var order []*ssa.BasicBlock
	seen := map[*ssa.BasicBlock]bool{}
	var dfs func(b *ssa.BasicBlock)
	dfs = func(b *ssa.BasicBlock) {
		seen[b] = true
		for i := len(b.Succs) - 1; i >= 0; i-- {
			s := b.Succs[i]
			if g.isBackEdge(b, s) || seen[s] {
				continue
			}
			dfs(s)
		}
		order = append(order, b)
	}
	dfs(g.fn.Blocks[0])
	for i, j := 0, len(order)-1; i < j; i, j = i+1, j-1 {
		order[i], order[j] = order[j], order[i]
	}
	return order
}

func (g *Gen) edgeCond(from *ssa.BasicBlock, succIdx int) string {
	if len(from.Instrs) == 0 {
		return "true"
	}
	if iff, ok := from.Instrs[len(from.Instrs)-1].(*ssa.If); ok {
		if from.Succs[0] == from.Succs[1] {
			return "true"
		}
		c := g.vals[iff.Cond]
		if c == nil {
			if k, ok := iff.Cond.(*ssa.Const); ok {
				c = g.constVal(k)
			} else {
				unsup("branch condition undefined")
			}
		}
		if succIdx == 0 {
			return c.S
		}
		return not(c.S)
	}
	return "true"
}

type inEdge struct {
	from  *ssa.BasicBlock
	guard string
	st    *State
}

func (g *Gen) inEdges(b *ssa.BasicBlock, wantBack bool) []inEdge {
	var es []inEdge
	for _, p := range b.Preds {
		back := g.isBackEdge(p, b)
		if back != wantBack {
			continue
		}
		ps := g.out[p]
		if ps == nil {
			continue // unreachable predecessor
		}
		for i, s := range p.Succs {
			if s == b {
				es = append(es, inEdge{from: p, guard: and(ps.reach, g.edgeCond(p, i)), st: ps})
				break
			}
		}
	}
	return es
}

func (g *Gen) mergeStates(b *ssa.BasicBlock, es []inEdge) *State {
	if len(es) == 1 {
		st := es[0].st.clone()
		if es[0].guard != es[0].st.reach {
			r := g.fresh(fmt.Sprintf("R%d", b.Index), "Bool")
			g.emit("(assert " + eq(r, es[0].guard) + ")")
			st.reach = r
			// a join narrowed by a branch condition is still a disjunction of the join's incoming paths: keep them, so
			// that quantified obligations further down can be proved path by path
			if ps, ok := g.joinParts[es[0].st.reach]; ok && len(ps) <= 8 {
				var parts []string
				for _, p := range ps {
					parts = append(parts, and(p, es[0].guard))
				}
				g.joinParts[r] = parts
			}
		} else if ps, ok := g.joinParts[es[0].st.reach]; ok {
			_ = ps
		}
		return st
	}
	var guards []string
	for _, e := range es {
		guards = append(guards, e.guard)
	}
	r := g.fresh(fmt.Sprintf("R%d", b.Index), "Bool")
	g.emit("(assert " + eq(r, or(guards...)) + ")")
	g.joinParts[r] = append([]string{}, guards...)
	st := &State{reach: r, vars: map[*ssa.Alloc]*Val{}}
	// vars
	allocs := map[*ssa.Alloc]bool{}
	for _, e := range es {
		for a := range e.st.vars {
			allocs[a] = true
		}
	}
	var alist []*ssa.Alloc
	for a := range allocs {
		alist = append(alist, a)
	}
	sort.Slice(alist, func(i, j int) bool { return alist[i].Pos() < alist[j].Pos() || alist[i].Pos() == alist[j].Pos() && alist[i].Name() < alist[j].Name() })
	for _, a := range alist {
		var vs []*Val
		for _, e := range es {
			v, ok := e.st.vars[a]
			if !ok {
				v = g.zeroVal(deref(a.Type()))
			}
			vs = append(vs, v)
		}
		st.vars[a] = g.mergeVals(deref(a.Type()), "v_"+a.Comment, guards, vs)
	}
	// heap
	sameBase := true
	for _, e := range es[1:] {
		if e.st.heap.base != es[0].st.heap.base {
			sameBase = false
		}
	}
	if sameBase {
		h := &Heap{m: map[string]string{}, base: es[0].st.heap.base}
		names := map[string]bool{}
		for _, e := range es {
			for n := range e.st.heap.m {
				names[n] = true
			}
		}
		for _, n := range sortedKeys(names) {
			var syms []string
			same := true
			for _, e := range es {
				s := g.heapSym(e.st.heap, n)
				syms = append(syms, s)
				if s != syms[0] {
					same = false
				}
			}
			if same {
				h.m[n] = syms[0]
				continue
			}
			srt := g.heapSort[n]
			if strings.HasPrefix(srt, "FUN ") {
				sig := strings.TrimPrefix(srt, "FUN ")
				args, ret := splitFunSig(sig)
				var ps, as []string
				for i, a := range args {
					ps = append(ps, fmt.Sprintf("(x%d %s)", i, a))
					as = append(as, fmt.Sprintf("x%d", i))
				}
				g.n++
				s := sym(fmt.Sprintf("%s@j!%d", n, g.n))
				if len(as) == 0 {
					body := ""
					for i := len(es) - 1; i >= 0; i-- {
						if body == "" {
							body = syms[i]
						} else {
							body = ite(guards[i], syms[i], body)
						}
					}
					g.emit(fmt.Sprintf("(define-fun %s (%s) %s %s)", s, strings.Join(ps, " "), ret, body))
				} else {
					// uninterpreted, one guarded defining equation per edge (usable in patterns; see heapSym)
					g.emit(fmt.Sprintf("(declare-fun %s %s)", s, sig))
					app := "(" + s + " " + strings.Join(as, " ") + ")"
					for i := range es {
						g.emit(fmt.Sprintf("(assert (=> %s (forall (%s) (! (= %s (%s %s)) :pattern (%s)))))", guards[i], strings.Join(ps, " "), app, syms[i], strings.Join(as, " "), app))
					}
				}
				h.m[n] = s
				continue
			}
			c := g.fresh(n, srt)
			for i := range es {
				g.emit("(assert " + implies(guards[i], eq(c, syms[i])) + ")")
			}
			h.m[n] = c
		}
		st.heap = h
	} else {
		g.nbase++
		hb := &heapBase{id: g.nbase}
		for i, e := range es {
			hb.parents = append(hb.parents, heapParent{guard: guards[i], h: e.st.heap})
		}
		st.heap = &Heap{m: map[string]string{}, base: hb}
		// names explicitly versioned in any predecessor must be merged eagerly
		names := map[string]bool{}
		for _, e := range es {
			for n := range e.st.heap.m {
				names[n] = true
			}
		}
		for _, n := range sortedKeys(names) {
			_ = g.heapSym(st.heap, n)
		}
	}
	return st
}

func (g *Gen) block(b *ssa.BasicBlock) {
	es := g.inEdges(b, false)
	var st *State
	if b.Index == 0 {
		st = g.entry.clone()
	} else {
		if len(es) == 0 {
			return // unreachable
		}
		st = g.mergeStates(b, es)
	}
	if li := g.loops[b]; li != nil {
		st = g.loopHead(b, li, st)
	}
	// phis
	for _, in := range b.Instrs {
		phi, ok := in.(*ssa.Phi)
		if !ok {
			break
		}
		var guards []string
		var vs []*Val
		for i, p := range b.Preds {
			ps := g.out[p]
			if ps == nil || g.isBackEdge(p, b) {
				if g.isBackEdge(p, b) {
					unsup("phi at loop head")
				}
				continue
			}
			var ec string
			for k, s := range p.Succs {
				if s == b {
					ec = g.edgeCond(p, k)
				}
			}
			guards = append(guards, and(ps.reach, ec))
			vs = append(vs, g.val(ps, phi.Edges[i]))
		}
		if len(vs) == 0 {
			unsup("phi without reachable edges")
		}
		g.vals[phi] = g.mergeVals(phi.Type(), "phi_"+phi.Name(), guards, vs)
	}
	for _, in := range b.Instrs {
		if g.sliceKeep != nil && !g.sliceKeep[in] {
			switch in.(type) {
			case *ssa.If, *ssa.Jump, *ssa.Return:
			default:
				continue
			}
		}
		g.curInstr = in
		g.instr(st, in)
		if _, ok := in.(*ssa.Panic); ok {
			st.reach = "false"
		}
		if r, ok := in.(*ssa.Return); ok {
			g.doReturn(st, r)
		}
	}
	g.out[b] = st
	// back edges out of b
	for i, s := range b.Succs {
		if g.isBackEdge(b, s) {
			if li := g.loops[s]; li != nil {
				g.backEdge(b, i, li, st)
			}
		}
	}
}

// ---------- loops ----------

type candInv struct {
	text  string
	e     *SExpr
	alive bool
}

func (g *Gen) loopInvs(li *loopInfo) []Clause {
	var invs []Clause
	if g.spec != nil {
		if ls := g.spec.Loops[li.ord]; ls != nil {
			invs = append(invs, ls.Inv...)
		}
	}
	for _, c := range g.autoInvs[li.ord] {
		invs = append(invs, c)
	}
	return invs
}

func (g *Gen) loopEnv(cur *State) *Env {
	env := g.specEnv(cur, g.entry)
	env.locals = true
	env.loop = g.curLoop
	return env
}

func (g *Gen) loopHead(b *ssa.BasicBlock, li *loopInfo, st *State) *State {
	g.curLoop = li
	defer func() { g.curLoop = nil }()
	invs := g.loopInvs(li)
	// 1. invariants hold on entry
	env := g.loopEnv(st)
	for _, cl := range invs {
		for _, part := range splitGoal(g.P.expand(cl.E)) {
			lb := cl.Name
			if lb == "" {
				lb = part.String()
			}
			g.oblige("inv-entry", fmt.Sprintf("loop%d:%s", li.ord, lb), b.Instrs[0].Pos(), st.reach, g.evalBool(env, part))
		}
	}
	// hidden range counters: -1 <= rangeindex is an automatic invariant (proved like any other)
	var rangeIdx []*ssa.Alloc
	for a := range li.modVars {
		if a.Comment == "rangeindex" {
			if v, live := st.vars[a]; live {
				rangeIdx = append(rangeIdx, a)
				g.oblige("inv-entry", fmt.Sprintf("loop%d:auto -1 <= rangeindex", li.ord), b.Instrs[0].Pos(), st.reach, "(<= (- 1) "+v.S+")")
			}
		}
	}
	li.rangeIdx = rangeIdx
	// 2. havoc what the loop modifies
	h := st.clone()
	var mv []*ssa.Alloc
	for a := range li.modVars {
		mv = append(mv, a)
	}
	sort.Slice(mv, func(i, j int) bool { return mv[i].Pos() < mv[j].Pos() || mv[i].Pos() == mv[j].Pos() && mv[i].Name() < mv[j].Name() })
	for _, a := range mv {
		if _, live := h.vars[a]; !live {
			continue // declared inside the loop
		}
		v := g.freshVal("lv_"+a.Comment, deref(a.Type()))
		g.typeFacts(h, v, "true")
		h.vars[a] = v
	}
	if li.modAll {
		g.applyModSet(h, &ModSet{All: true})
	} else {
		g.applyModSet(h, &ModSet{Names: li.modHeap})
	}
	for _, a := range rangeIdx {
		g.assume(h.reach, "(<= (- 1) "+h.vars[a].S+")")
	}
	g.loopFrame(st, h, li)
	// 3. assume invariants
	henv := g.loopEnv(h)
	for _, cl := range invs {
		g.assume(h.reach, g.evalBool(henv, g.P.expand(cl.E)))
	}
	// variant at head
	if g.spec != nil {
		if ls := g.spec.Loops[li.ord]; ls != nil && ls.Dec != nil {
			d := g.eval(henv, g.P.expand(ls.Dec))
			c := g.fresh(fmt.Sprintf("variant%d", li.ord), "Int")
			g.emit("(assert " + eq(c, d.S) + ")")
			g.variantAtHead[li.head] = c
		}
	}
	return h
}

func (g *Gen) backEdge(b *ssa.BasicBlock, succIdx int, li *loopInfo, st *State) {
	g.curLoop = li
	defer func() { g.curLoop = nil }()
	guard := and(st.reach, g.edgeCond(b, succIdx))
	env := g.loopEnv(st)
	pos := token.NoPos
	if len(li.head.Instrs) > 0 {
		pos = li.head.Instrs[0].Pos()
	}
	// report the position of the last positioned instruction on the way into the back edge
	for blk := b; blk != nil; {
		found := false
		for k := len(blk.Instrs) - 1; k >= 0; k-- {
			if p := blk.Instrs[k].Pos(); p.IsValid() {
				pos = p
				found = true
				break
			}
		}
		if found || len(blk.Preds) != 1 {
			break
		}
		blk = blk.Preds[0]
	}
	for _, cl := range g.loopInvs(li) {
		for _, part := range splitGoal(g.P.expand(cl.E)) {
			lb := cl.Name
			if lb == "" {
				lb = part.String()
			}
			g.obligeSplit("inv-preserve", fmt.Sprintf("loop%d:%s", li.ord, lb), pos, guard, g.evalBool(env, part))
		}
	}
	for _, a := range li.rangeIdx {
		if v, live := st.vars[a]; live {
			g.oblige("inv-preserve", fmt.Sprintf("loop%d:auto -1 <= rangeindex", li.ord), pos, guard, "(<= (- 1) "+v.S+")")
		}
	}
	if c, ok := g.variantAtHead[li.head]; ok {
		d := g.eval(env, g.P.expand(g.spec.Loops[li.ord].Dec))
		g.oblige("variant", fmt.Sprintf("loop%d:%s", li.ord, g.spec.Loops[li.ord].Dec.String()), pos, guard, and("(<= 0 "+c+")", "(< "+d.S+" "+c+")"))
	}
}

// ---------- return ----------

func (g *Gen) doReturn(st *State, r *ssa.Return) {
	g.retReach = append(g.retReach, st.reach)
	if g.spec == nil {
		return
	}
	sig := g.fn.Signature
	var res *Val
	switch len(r.Results) {
	case 0:
		res = &Val{K: KTuple}
	case 1:
		res = g.val(st, r.Results[0])
	default:
		res = &Val{K: KTuple}
		for _, x := range r.Results {
			res.Flds = append(res.Flds, g.val(st, x))
		}
	}
	if len(g.spec.Hints) > 0 {
		henv := g.specEnv(st, g.entry)
		g.bindResults(henv, sig.Results(), res, g.fn)
		for _, cl := range g.spec.Hints {
			for _, part := range splitGoal(g.P.expand(cl.E)) {
				lb := cl.Name
				if lb == "" {
					lb = part.String()
				}
				g.oblige("hint", lb, r.Pos(), st.reach, g.evalBool(henv, part))
			}
		}
	}
	post := st.clone()
	env0 := g.specEnv(g.entry, g.entry)
	g.applyUpdates(post, g.entry, env0, g.spec)
	if len(g.spec.PostUpdates) > 0 {
		penv := g.specEnv(post, g.entry)
		g.bindResults(penv, sig.Results(), res, g.fn)
		g.applyPostUpdates(post, g.entry, penv, g.spec)
	}
	// bridges: the declared (entry-relative) ghost update equals this expression over the ghost state
	// reached at the return point; proved per bridge, then available as a rewrite for the postconditions
	for _, br := range g.spec.Bridges {
		gf := g.P.ghostVar(br.Ghost)
		if gf == nil {
			unsup("bridge of unknown ghost var %s", br.Ghost)
		}
		name := "ghost|" + gf.Name
		benv := g.specEnv(st, g.entry)
		benv.locals = false
		g.bindResults(benv, sig.Results(), res, g.fn)
		var ps, as []string
		benv.qvars = map[string]bool{}
		for i, pn := range br.Params {
			pt := g.P.resolveType(gf.Params[i].Type, g.spec.Pkg)
			g.n++
			bn := fmt.Sprintf("q!%s!%d", pn, g.n)
			benv.vars[pn] = &Val{K: kindOf(pt), T: pt, S: bn}
			benv.qvars[pn] = true
			ps = append(ps, fmt.Sprintf("(%s %s)", bn, sortOfKind(kindOf(pt))))
			as = append(as, bn)
		}
		body := g.eval(benv, g.P.expand(br.Body))
		app := "(" + g.heapSym(post.heap, name) + " " + strings.Join(as, " ") + ")"
		g.oblige("bridge", br.Ghost, r.Pos(), st.reach, fmt.Sprintf("(forall (%s) (! (= %s %s) :pattern (%s)))", strings.Join(ps, " "), app, body.S, app))
	}
	env := g.specEnv(post, g.entry)
	g.bindResults(env, sig.Results(), res, g.fn)
	for _, cl := range g.spec.Ensures {
		for _, part := range splitGoal(g.P.expand(cl.E)) {
			lb := cl.Name
			if lb == "" {
				lb = part.String()
			}
			g.oblige("post", lb, r.Pos(), st.reach, g.evalBool(env, part))
		}
	}
	if g.hooks != nil && g.hooks.onReturn != nil {
		g.hooks.onReturn(g, post, env, r)
	}
}

// ---------- macro expansion at AST level ----------

func (P *Program) expand(e *SExpr) *SExpr { return P.expandN(e, 0) }

func (P *Program) expandN(e *SExpr, depth int) *SExpr {
	if e == nil {
		return nil
	}
	if depth > 50 {
		panic(unsupported{"macro recursion too deep"})
	}
	c := *e
	c.Args = make([]*SExpr, len(e.Args))
	for i, a := range e.Args {
		c.Args[i] = P.expandN(a, depth)
	}
	if len(e.Trig) > 0 {
		c.Trig = nil
		for _, tr := range e.Trig {
			var n []*SExpr
			for _, t := range tr {
				n = append(n, P.expandN(t, depth))
			}
			c.Trig = append(c.Trig, n)
		}
	}
	if c.Op == "call" {
		if m := P.macros[c.Name]; m != nil {
			if len(m.Params) != len(c.Args) {
				panic(unsupported{fmt.Sprintf("macro %s arity", c.Name)})
			}
			sub := map[string]*SExpr{}
			for i, p := range m.Params {
				sub[p] = c.Args[i]
			}
			return P.expandN(substExpr(m.Body, sub), depth+1)
		}
	}
	return &c
}


// loopFrame: in a function that is checked against a modifies clause every write inside the loop
// targets a fresh or a declared location (that is a `frame` obligation of its own), so at the loop
// head every location that existed at function entry and is not declared still holds the value it
// had when the loop was entered.
func (g *Gen) loopFrame(before, head *State, li *loopInfo) {
	if !g.hasFrame() || li.modAll {
		return
	}
	g.inFrameEval = true
	defer func() { g.inFrameEval = false }()
	locs := g.ownLocs()
	for _, name := range sortedKeys(li.modHeap) {
		srt, ok := g.heapSort[name]
		if !ok || name == "brk" || name == "abrk" {
			continue
		}
		nw, okN := head.heap.m[name]
		if !okN {
			continue
		}
		old := g.heapSym(before.heap, name)
		if old == nw {
			continue
		}
		switch {
		case strings.HasPrefix(name, "M|") && strings.HasPrefix(srt, "(Array Int (Array Int"):
			conds := []string{"(<= 0 a)", "(< a " + g.abrk(g.entry) + ")"}
			for _, l := range locs {
				if l.kind == "contents" {
					conds = append(conds, not(eq("a", l.arr0)))
				}
			}
			g.emit(fmt.Sprintf("(assert (forall ((a Int)) (! (=> %s (= (select %s a) (select %s a))) :pattern ((select %s a)))))", and(conds...), nw, old, nw))
		case strings.HasPrefix(name, "H|") && strings.HasPrefix(srt, "(Array Int ") && !strings.HasPrefix(srt, "(Array Int (Array"):
			// p existed at function entry: a top-level object below the entry allocation counter, or an
			// interior/element address whose root object or array did
			conds := []string{"(or (and (= (inarr p) 0) (< 0 (objroot p)) (< (objroot p) " + g.brk(g.entry) + ")) (and (< 0 (inarr p)) (< (inarr p) " + g.abrk(g.entry) + ")))"}
			skip := false
			for _, l := range locs {
				if l.kind == "fieldall" && (l.hname == name || strings.HasPrefix(name, l.hname+"#")) {
					skip = true
				}
			}
			if skip {
				continue
			}
			for _, l := range locs {
				switch l.kind {
				case "field":
					if l.hname == name || strings.HasPrefix(name, l.hname+"#") {
						conds = append(conds, not(eq("p", l.addr)))
					}
				case "object":
					conds = append(conds, not(eq("p", l.addr)))
				}
			}
			g.emit(fmt.Sprintf("(assert (forall ((p Int)) (! (=> %s (= (select %s p) (select %s p))) :pattern ((select %s p)))))", and(conds...), nw, old, nw))
		}
	}
}


// computeInitSlice keeps only the instructions of a package initialiser that contribute to the given
// package-level variables (stores into them, the values stored, and stores into temporaries those
// values are built from).  Everything else in the initialiser is skipped: it cannot assign these
// variables (checked separately: `axiom-stable`, and no kept variable is passed to a call here).
func (g *Gen) computeInitSlice(names map[string]bool) {
	targets := map[*ssa.Global]bool{}
	for _, m := range g.fn.Pkg.Members {
		if gl, ok := m.(*ssa.Global); ok && names[gl.Name()] {
			targets[gl] = true
		}
	}
	keep := map[ssa.Instruction]bool{}
	keptAllocs := map[*ssa.Alloc]bool{}
	var addVal func(v ssa.Value)
	addInstr := func(in ssa.Instruction) {
		if keep[in] {
			return
		}
		keep[in] = true
		if a, ok := in.(*ssa.Alloc); ok {
			keptAllocs[a] = true
		}
		for _, op := range in.Operands(nil) {
			if *op != nil {
				addVal(*op)
			}
		}
	}
	addVal = func(v ssa.Value) {
		switch x := v.(type) {
		case *ssa.Global:
			if x.Pkg == g.fn.Pkg && !targets[x] {
				targets[x] = true
			}
		case ssa.Instruction:
			if x.Parent() == g.fn {
				addInstr(x)
			}
		}
	}
	for _, b := range g.fn.Blocks {
		for _, in := range b.Instrs {
			if iff, ok := in.(*ssa.If); ok {
				addVal(iff.Cond)
			}
		}
	}
	for changed := true; changed; {
		n0, t0 := len(keep), len(targets)
		for _, b := range g.fn.Blocks {
			for _, in := range b.Instrs {
				st, ok := in.(*ssa.Store)
				if !ok {
					if c, ok := in.(*ssa.Call); ok {
						// a call that receives one of the variables could write it: refuse
						for _, a := range c.Common().Args {
							if gl := rootGlobal(a); gl != nil && targets[gl] {
								unsup("package variable %s is passed to a call inside the initialiser", gl.Name())
							}
						}
					}
					continue
				}
				if gl := rootGlobal(st.Addr); gl != nil && targets[gl] {
					addInstr(st)
				}
				if ra := rootAlloc(st.Addr); ra != nil && keptAllocs[ra] {
					addInstr(st)
				}
			}
		}
		changed = len(keep) != n0 || len(targets) != t0
	}
	g.sliceKeep = keep
}
