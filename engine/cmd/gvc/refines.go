package main

import (
	"fmt"
	"go/types"
	"strings"

	"golang.org/x/tools/go/ssa"
)

// Refinement of an interface contract by a concrete method.
//
// An interface contract (`iface pkg.I.M`) is written over abstract ghost state (e.g. the cursor model
// rdLine/rdStart/... of a text.Reader).  Callers of the interface method rely on it.  A concrete method
// declares  `refines pkg.I.M via <abs>`  where <abs> names a set of `absmacro <abs> g(x) = <expr over the
// fields of x>` definitions giving each ghost symbol its concrete meaning for this implementation.
// The obligations generated here are, for the REAL body of the concrete method:
//   refines-pre : the interface precondition (translated) implies every precondition of the concrete contract
//   refines-post: from the interface precondition, the body establishes every interface postcondition
//                 (translated), and every ghost symbol the interface contract does not list under
//                 `modifies` keeps its value.
// Loop invariants are those of the concrete contract (proved in the ordinary run from the concrete
// precondition, which refines-pre shows to be implied).

func (P *Program) ifaceSpecByName(name string) (*FuncSpec, string) {
	parts := strings.SplitN(name, ".", 2)
	if len(parts) != 2 {
		return nil, ""
	}
	tp := P.tpkgByName[parts[0]]
	if tp == nil {
		return nil, ""
	}
	key := tp.Path() + "::" + parts[1]
	return P.specs[key], key
}

func ifaceMethodParamNames(P *Program, name string) []string {
	parts := strings.Split(name, ".")
	if len(parts) != 3 {
		return nil
	}
	tp := P.tpkgByName[parts[0]]
	if tp == nil {
		return nil
	}
	obj := tp.Scope().Lookup(parts[1])
	if obj == nil {
		return nil
	}
	it, ok := obj.Type().Underlying().(*types.Interface)
	if !ok {
		return nil
	}
	for i := 0; i < it.NumMethods(); i++ {
		m := it.Method(i)
		if m.Name() != parts[2] {
			continue
		}
		sig := m.Type().(*types.Signature)
		names := []string{"recv"}
		for k := 0; k < sig.Params().Len(); k++ {
			n := sig.Params().At(k).Name()
			if n == "" || n == "_" {
				n = fmt.Sprintf("arg%d", k)
			}
			names = append(names, n)
		}
		return names
	}
	return nil
}

// absSubst rewrites e: applications of abstraction macros are replaced by their bodies, identifiers
// of the interface method's parameters by the concrete parameter names.
func absSubst(e *SExpr, abs map[string]*SpecMacro, ren map[string]*SExpr) *SExpr {
	if e == nil {
		return nil
	}
	e = substExpr(e, ren)
	var walk func(x *SExpr) *SExpr
	walk = func(x *SExpr) *SExpr {
		if x == nil {
			return nil
		}
		c := *x
		c.Args = make([]*SExpr, len(x.Args))
		for i, a := range x.Args {
			c.Args[i] = walk(a)
		}
		if len(x.Trig) > 0 {
			c.Trig = nil // triggers over abstract symbols do not survive the translation
		}
		if c.Op == "call" {
			if m := abs[c.Name]; m != nil && len(m.Params) == len(c.Args) {
				sub := map[string]*SExpr{}
				for i, p := range m.Params {
					sub[p] = c.Args[i]
				}
				return walk(substExpr(m.Body, sub))
			}
		}
		return &c
	}
	return walk(e)
}

// VerifyRefines returns nil if fn's contract declares no refinement.
func (P *Program) VerifyRefines(fn *ssa.Function, spec *FuncSpec, hooks *Hooks) *FuncResult {
	if spec == nil || spec.RefinesIface == "" {
		return nil
	}
	name := fnDisplayName(fn) + " refines " + spec.RefinesIface
	isp, _ := P.ifaceSpecByName(spec.RefinesIface)
	abs := P.absMacros[spec.RefinesAbs]
	inames := ifaceMethodParamNames(P, spec.RefinesIface)
	fail := func(why string) *FuncResult {
		return &FuncResult{Fn: fn, Name: name, Spec: spec, Obls: []*Obl{{Name: name + "#bind", Kind: "bind",
			V: Verdict{Result: "unbound", Solver: "-", Output: why}}}}
	}
	if isp == nil {
		return fail("no interface contract " + spec.RefinesIface)
	}
	if abs == nil {
		return fail("no abstraction " + spec.RefinesAbs)
	}
	if len(inames) != len(fn.Params) {
		return fail(fmt.Sprintf("interface method has %d parameters, %s has %d", len(inames), fnDisplayName(fn), len(fn.Params)))
	}
	ren := map[string]*SExpr{}
	for i, n := range inames {
		ren[n] = &SExpr{Op: "ident", Name: fn.Params[i].Name()}
		if i > 0 {
			ren[fmt.Sprintf("arg%d", i-1)] = &SExpr{Op: "ident", Name: fn.Params[i].Name()}
		}
	}
	d := &FuncSpec{Key: spec.Key, Pkg: spec.Pkg, Loops: spec.Loops, Uses: spec.Uses, Pos: spec.Pos,
		Modifies: spec.Modifies, HasMod: spec.HasMod, ModAll: spec.ModAll, PureParams: spec.PureParams, Nilable: spec.Nilable}
	for _, cl := range isp.Requires {
		d.Requires = append(d.Requires, Clause{E: absSubst(P.expand(cl.E), abs, ren), Pos: cl.Pos, Name: cl.Name})
	}
	d.RefinesPre = spec.Requires
	for _, cl := range isp.Ensures {
		d.Ensures = append(d.Ensures, Clause{E: absSubst(P.expand(cl.E), abs, ren), Pos: cl.Pos, Name: cl.Name})
	}
	// frame of the abstract state: a ghost symbol not listed in the interface's modifies clause is unchanged
	if isp.HasMod && !isp.ModAll {
		listed := map[string]bool{}
		for _, it := range isp.Modifies {
			listed[strings.TrimSpace(it)] = true
		}
		recvName := fn.Params[0].Name()
		for _, gname := range sortedKeysMacro(abs) {
			m := abs[gname]
			if listed[gname] || len(m.Params) != 1 {
				continue
			}
			if gf := P.ghostVar(gname); gf == nil {
				continue // rigid ghost function: nothing to preserve
			}
			app := &SExpr{Op: "call", Name: gname, Args: []*SExpr{{Op: "ident", Name: recvName}}}
			cur := absSubst(app, abs, nil)
			old := &SExpr{Op: "old", Args: []*SExpr{cur}}
			d.Ensures = append(d.Ensures, Clause{E: &SExpr{Op: "bin", Name: "==", Args: []*SExpr{cur, old}}, Name: "unchanged " + gname})
		}
	}
	r := P.Verify(fn, d, hooks)
	r.Name = name
	var keep []*Obl
	for _, o := range r.Obls {
		switch o.Kind {
		case "refines-pre":
			keep = append(keep, o)
		case "post":
			o.Kind = "refines-post"
			keep = append(keep, o)
		}
	}
	for _, o := range keep {
		o.Name = strings.Replace(o.Name, fnDisplayName(fn)+"#", name+"#", 1)
		o.Name = strings.Replace(o.Name, "#post:", "#refines-post:", 1)
	}
	if r.Unsupported == "" {
		r.Obls = keep
	}
	return r
}

func sortedKeysMacro(m map[string]*SpecMacro) []string {
	k := map[string]bool{}
	for n := range m {
		k[n] = true
	}
	return sortedKeys(k)
}
