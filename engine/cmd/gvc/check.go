package main

import (
	"encoding/json"
	"fmt"
	"os"
	"path/filepath"
	"regexp"
	"sort"
	"strconv"
	"strings"
	"sync"
	"time"

	"go/types"

	"golang.org/x/tools/go/ssa"
)

// ---------- property definition (props/<id>.json) ----------

type PropDef struct {
	ID    string `json:"id"`
	Title string `json:"title"`
	// Functions: spec keys "pkgpath-suffix::Key" (e.g. "util::EscapeHTML", "text::(*reader).Advance") or
	// regexps over display names prefixed with "re:".
	Functions []string `json:"functions"`
	// SweepFile: a file under /verif (one spec key per line, # comments): the sweep visits exactly these
	// functions (instead of a regexp).  Listed functions that no longer exist are reported in the evidence.
	SweepFile string `json:"sweep_file"`
	// ThoroughFunctions are added in the thorough tier.
	ThoroughFunctions []string `json:"thorough_functions"`
	// Kinds restricts which obligation kinds count for this property (empty: all).
	Kinds []string `json:"kinds"`
	// NameFilter: only obligations whose name matches (regexp) count (empty: all).
	NameFilter string `json:"name_filter"`
	// ExcludeName: obligations whose name matches are not part of this property (they belong to another one).
	ExcludeName string `json:"exclude_name"`
	// Sweep: every library function matching this regexp is visited with the property's hook set
	// (frame sweeps); empty = none.
	Sweep      string   `json:"sweep"`
	SweepKinds []string `json:"sweep_kinds"`
	// SweepPreCallFilter: in a sweep, a pre@call obligation of a contract function is part of this property
	// only if its name matches (empty: all).  Other preconditions belong to the safety sweep (C01).
	SweepPreCallFilter string `json:"sweep_precall_filter"`
	Hooks      string   `json:"hooks"` // "", "rowrite"
	Scans      []string `json:"scans"` // structural SSA obligations (scan.go)
	TrustedBase []string `json:"trusted_base"`
	NotCovered  []string `json:"not_covered"`
	Bounded     []string `json:"bounded_standins"`
	// BoundedTests: bounded stand-ins run on the real code (never counted as proved): a Go test file under /verif
	// (test function TestGvcReplay, failures print REPLAY-POST-FALSE) injected into package dir Pkg with go test -overlay.
	BoundedTests []struct {
		Name  string `json:"name"`
		File  string `json:"file"`
		Pkg   string `json:"pkg"`
		Bound string `json:"bound"`
	} `json:"bounded_tests"`
	MaxAssumes  int      `json:"max_assumes"`
}

type knownFinding struct {
	Prop, Obl, Witness string
}

func loadKnown(path string) (known []knownFinding, fixed []string) {
	b, err := os.ReadFile(path)
	if err != nil {
		return nil, nil
	}
	for _, ln := range strings.Split(string(b), "\n") {
		ln = strings.TrimSpace(ln)
		if strings.HasPrefix(ln, "fixed:") {
			fixed = append(fixed, ln)
			continue
		}
		if !strings.HasPrefix(ln, "known:") {
			continue
		}
		k := knownFinding{}
		rest := strings.TrimSpace(strings.TrimPrefix(ln, "known:"))
		// property=C.. obligation=<name up to " witness="> witness=<rest>
		if i := strings.Index(rest, " witness="); i >= 0 {
			k.Witness = rest[i+9:]
			rest = rest[:i]
		}
		if i := strings.Index(rest, " obligation="); i >= 0 {
			k.Obl = strings.TrimSpace(rest[i+12:])
			rest = rest[:i]
		}
		k.Prop = strings.TrimPrefix(strings.TrimSpace(rest), "property=")
		known = append(known, k)
	}
	return
}

// ---------- evidence ----------

type evObl struct {
	Name   string  `json:"name"`
	Kind   string  `json:"kind"`
	Result string  `json:"result"`
	Solver string  `json:"solver"`
	Secs   float64 `json:"secs"`
	Lines  int     `json:"smt_lines"`
	Pos    string  `json:"pos,omitempty"`
}

type evidence struct {
	PropertyID string                 `json:"property_id"`
	Tier       string                 `json:"tier"`
	Seed       int                    `json:"seed"`
	Level      string                 `json:"level"`
	Coverage   map[string]interface{} `json:"coverage"`
	Assumptions []string              `json:"assumptions"`
	WallS      float64                `json:"wall_s"`
	Violations int                    `json:"violations"`
}

func matchFunc(pat string, fn *ssa.Function) bool {
	if strings.HasPrefix(pat, "re:") {
		re := regexp.MustCompile(pat[3:])
		return re.MatchString(fnDisplayName(fn))
	}
	key := specKeyOf(fn)
	// pat "util::X" matches ".../util::X"; "goldmark::X" matches the root package
	i := strings.Index(pat, "::")
	if i < 0 {
		return false
	}
	pk, k := pat[:i], pat[i+2:]
	j := strings.Index(key, "::")
	if key[j+2:] != k {
		return false
	}
	full := key[:j]
	if pk == "goldmark" {
		return full == modPath
	}
	return strings.HasSuffix(full, "/"+pk)
}

func runCheck(args []string) int {
	var propID, tier, repo, replayPath string
	repo = "/repo"
	tier = "quick"
	for i := 0; i < len(args); i++ {
		switch args[i] {
		case "-prop":
			i++
			propID = args[i]
		case "-tier":
			i++
			tier = args[i]
		case "-repo":
			i++
			repo = args[i]
		case "-replay":
			i++
			replayPath = args[i]
		}
	}
	if replayPath != "" {
		b, err := os.ReadFile(replayPath)
		if err != nil {
			fmt.Println("cannot read replay file:", err)
			return 2
		}
		fmt.Print(string(b))
		return rerunReplay(repo, replayPath)
	}
	verif := verifRoot()
	b, err := os.ReadFile(filepath.Join(verif, "props", propID+".json"))
	if err != nil {
		fmt.Println("BROKEN-MACHINERY no property definition:", err)
		return 2
	}
	var pd PropDef
	if err := json.Unmarshal(b, &pd); err != nil {
		fmt.Println("BROKEN-MACHINERY bad property definition:", err)
		return 2
	}
	sweepList := readFuncList(verif, pd.SweepFile)
	seed := 0
	if s := os.Getenv("VERIF_SEED"); s != "" {
		seed, _ = strconv.Atoi(s)
	}
	t0 := time.Now()
	P, err := LoadProgram(repo, []string{filepath.Join(verif, "specs")})
	if err != nil {
		fmt.Println("BROKEN-MACHINERY cannot load /repo (does it compile with -tags verif?):", err)
		return 2
	}
	if len(P.specErrs) > 0 {
		for _, e := range P.specErrs {
			fmt.Println("SPEC-ERROR", e)
		}
		fmt.Println("BROKEN-MACHINERY contract files do not parse")
		return 2
	}
	pats := append([]string{}, pd.Functions...)
	if tier == "thorough" {
		pats = append(pats, pd.ThoroughFunctions...)
	}
	keepKind := map[string]bool{}
	for _, k := range pd.Kinds {
		keepKind[k] = true
	}
	var nameRe *regexp.Regexp
	if pd.NameFilter != "" {
		nameRe = regexp.MustCompile(pd.NameFilter)
	}
	var exclRe *regexp.Regexp
	if pd.ExcludeName != "" {
		exclRe = regexp.MustCompile(pd.ExcludeName)
	}
	// a clause labelled [Cnn_name] belongs to property Cnn only: other checks neither prove nor count it
	// (e.g. the segment-validity preconditions of the segment sinks, which only C05's functions can establish)
	propTagRe := regexp.MustCompile(`:(C[0-9][0-9])_`)
	foreignTag := func(name string) bool {
		m := propTagRe.FindStringSubmatch(name)
		return m != nil && m[1] != pd.ID
	}
	hooks := hooksByName(P, pd.Hooks)
	var results []*FuncResult
	var bindFails []*Obl
	seen := map[*ssa.Function]bool{}
	for _, pat := range pats {
		found := false
		for _, fn := range P.allFuncs {
			if !matchFunc(pat, fn) {
				continue
			}
			found = true
			if seen[fn] {
				continue
			}
			seen[fn] = true
			sp := P.bodySpecOf(fn)
			if sp != nil && sp.Trusted {
				continue
			}
			r := P.Verify(fn, sp, hooks)
			results = append(results, r)
			if rr := P.VerifyRefines(fn, sp, hooks); rr != nil {
				results = append(results, rr)
			}
		}
		if !found {
			bindFails = append(bindFails, &Obl{Name: "bind:" + pat, Kind: "bind", V: Verdict{Result: "unbound", Solver: "-", Output: "function under contract no longer exists in /repo: " + pat}})
		}
	}
	// axioms (facts about package-level variables) used by the functions above: proved as a
	// postcondition of the package initialiser + "never assigned outside init" (scanGlobalWrites).
	results = append(results, P.axiomObligations(results)...)
	var listMissing []string
	if pd.Sweep != "" || len(sweepList) > 0 {
		re := regexp.MustCompile("^$")
		if pd.Sweep != "" {
			re = regexp.MustCompile(pd.Sweep)
		}
		inList := map[*ssa.Function]bool{}
		for _, pat := range sweepList {
			found := false
			for _, fn := range P.allFuncs {
				if matchFunc(pat, fn) {
					inList[fn] = true
					found = true
				}
			}
			if !found {
				listMissing = append(listMissing, pat)
			}
		}
		sk := map[string]bool{}
		for _, k := range pd.SweepKinds {
			sk[k] = true
		}
		var preCallRe *regexp.Regexp
		if pd.SweepPreCallFilter != "" {
			preCallRe = regexp.MustCompile(pd.SweepPreCallFilter)
		}
		var otherClaims []string
		for id, pl := range claimedPatternsByProp(verif) {
			if id != pd.ID {
				otherClaims = append(otherClaims, pl...)
			}
		}
		for _, fn := range P.allFuncs {
			if seen[fn] || !(re.MatchString(fnDisplayName(fn)) || inList[fn]) || isTestutil(fn) {
				continue
			}
			seen[fn] = true
			sp := P.bodySpecOf(fn)
			if sp != nil && sp.Trusted {
				continue
			}
			// the clauses of a contract that another property's check lists among its functions are
			// discharged there; this sweep then only adds its own obligation kinds for that function
			elsewhere := false
			if sp != nil {
				for _, pat := range otherClaims {
					if matchFunc(pat, fn) {
						elsewhere = true
						break
					}
				}
			}
			r := P.Verify(fn, sp, hooks)
			var keep []*Obl
			for _, o := range r.Obls {
				// a function with a contract that no other check verifies also has to prove the contract's
				// own clauses (invariants the frame obligations lean on); run-time safety kinds are C01's
				if sk[o.Kind] || (sp != nil && !elsewhere && logicalKind[o.Kind]) {
					if exclRe != nil && exclRe.MatchString(o.Name) {
						continue
					}
					if foreignTag(o.Name) {
						continue
					}
					if o.Kind == "pre@call" && !sk[o.Kind] && preCallRe != nil && !preCallRe.MatchString(o.Name) {
						continue
					}
					keep = append(keep, o)
				}
			}
			r.Obls = keep
			r.sweepOnly = true
			r.listed = inList[fn]
			results = append(results, r)
		}
	}
	// contracts that name functions which do not exist
	for _, fs := range P.specList {
		if fs.IsIface || fs.Trusted {
			continue
		}
		if P.funcs[fs.Pkg+"::"+fs.Key] == nil {
			// only report for functions this property claims
			for _, pat := range pats {
				if strings.HasSuffix(pat, "::"+fs.Key) {
					bindFails = append(bindFails, &Obl{Name: "bind:" + fs.Key, Kind: "bind", V: Verdict{Result: "unbound", Output: "contract at " + fs.Pos + " names a function that does not exist"}})
				}
			}
		}
	}
	for _, r := range results {
		if r.sweepOnly {
			continue
		}
		var keep []*Obl
		for _, o := range r.Obls {
			if len(keepKind) > 0 && !keepKind[o.Kind] {
				continue
			}
			if nameRe != nil && !nameRe.MatchString(o.Name) {
				continue
			}
			if exclRe != nil && exclRe.MatchString(o.Name) {
				continue
			}
			if foreignTag(o.Name) {
				continue
			}
			keep = append(keep, o)
		}
		r.Obls = keep
	}
	quickMs, fullMs := 3000, 12000
	if tier == "thorough" {
		quickMs, fullMs = 10000, 60000
	}
	if os.Getenv("GVC_SURVEY") != "" {
		quickMs, fullMs = 1500, 3000 // survey of what discharges at all (used to draw up function lists, never by a registered check)
	}
	solveAll(results, quickMs, fullMs)
	// vacuity canaries
	canaryBad := runCanaries(results)
	// every contract relied upon at a call site must itself be verified by some check (its function is
	// listed in some props/*.json), or be a trusted library contract / interface contract (listed as assumed)
	claimedAnywhere := allClaimedPatterns(verif)
	var scanObls []*Obl
	relied := map[string]bool{}
	var ifaceUsed []string
	for _, r := range results {
		if r.gen == nil {
			continue
		}
		for key := range r.gen.usedSpecs {
			relied[key] = true
		}
	}
	for _, key := range sortedKeys(relied) {
		fs := P.specs[key]
		if fs == nil || fs.Trusted {
			continue
		}
		if fs.IsIface {
			ifaceUsed = append(ifaceUsed, fs.Key)
			continue
		}
		fn := P.funcs[key]
		ok := false
		if fn != nil && seen[fn] {
			ok = true // verified by this very run
		}
		if fn != nil && !ok {
			for _, pat := range claimedAnywhere {
				if matchFunc(pat, fn) {
					ok = true
					break
				}
			}
		}
		if !ok {
			scanObls = append(scanObls, &Obl{Name: "contract-verified:" + key, Kind: "contract-verified", Goal: "true", Guard: "true",
				V: Verdict{Result: "unverified", Solver: "scan", Output: "the contract of " + key + " is used at a call site but its function is not verified by any check"}})
		}
	}
	// structural scans
	for _, sc := range pd.Scans {
		scanObls = append(scanObls, runScan(P, sc)...)
	}
	for _, k := range uniq(ifaceUsed) {
		pd.TrustedBase = append(pd.TrustedBase, "interface contract (assumed for every implementation; in-repo implementations are verified against their concrete contracts): "+k)
	}

	known, _ := loadKnown(filepath.Join(verif, "known_findings.txt"))
	isKnown := func(name string) *knownFinding {
		for i := range known {
			if known[i].Prop == pd.ID && known[i].Obl == name {
				return &known[i]
			}
		}
		return nil
	}

	var all []evObl
	nObl, nOK := 0, 0
	var failed []*Obl
	var failedRes = map[*Obl]*FuncResult{}
	var unsupported []string
	var funcsUnder []string
	nSwept := 0
	var havocked, notes []string
	nAssume := 0
	solverTime := map[string]float64{}
	solverWins := map[string]int{}
	sort.Slice(results, func(i, j int) bool { return results[i].Name < results[j].Name })
	for _, r := range results {
		if r.Unsupported != "" {
			if r.sweepOnly && !r.listed {
				unsupported = append(unsupported, r.Name+": "+r.Unsupported)
				continue
			}
			// a function under contract that cannot be translated is a failed obligation
			o := &Obl{Name: r.Name + "#translate", Kind: "translate", V: Verdict{Result: "out-of-subset", Solver: "-", Output: r.Unsupported}}
			r.Obls = []*Obl{o}
		}
		if !r.sweepOnly {
			funcsUnder = append(funcsUnder, r.Name)
		} else {
			nSwept++
			if r.Spec != nil {
				funcsUnder = append(funcsUnder, r.Name)
			}
		}
		nAssume += r.NAssume
		for _, h := range r.Havocked {
			havocked = append(havocked, r.Name+": "+h)
		}
		for _, n := range r.Notes {
			notes = append(notes, r.Name+": "+n)
		}
		for _, o := range r.Obls {
			nObl++
			all = append(all, evObl{Name: o.Name, Kind: o.Kind, Result: o.V.Result, Solver: o.V.Solver, Secs: round3(o.V.Secs), Lines: o.Upto, Pos: posStr(o)})
			solverTime[o.V.Solver] += o.V.Secs
			if os.Getenv("GVC_SLOW") != "" && o.V.Secs > 1.0 {
				fmt.Printf("SLOW %.1fs %s %s\n", o.V.Secs, o.V.Solver, o.Name)
			}
			if o.V.Result == "unsat" {
				nOK++
				solverWins[o.V.Solver]++
			} else {
				failed = append(failed, o)
				failedRes[o] = r
			}
		}
	}
	for _, o := range append(bindFails, scanObls...) {
		nObl++
		all = append(all, evObl{Name: o.Name, Kind: o.Kind, Result: o.V.Result, Solver: o.V.Solver})
		if o.V.Result == "unsat" || o.V.Result == "holds" {
			nOK++
			solverWins["scan"]++
		} else {
			failed = append(failed, o)
		}
	}

	exit := 0
	if len(canaryBad) > 0 {
		for _, c := range canaryBad {
			fmt.Println("BROKEN-MACHINERY contradictory contract (canary proved false):", c)
		}
		exit = 2
	}
	if pd.MaxAssumes >= 0 && nAssume > pd.MaxAssumes {
		fmt.Printf("BROKEN-MACHINERY assume count %d exceeds the %d recorded for %s\n", nAssume, pd.MaxAssumes, pd.ID)
		exit = 2
	}
	if nObl == 0 {
		fmt.Println("BROKEN-MACHINERY zero obligations generated for", pd.ID)
		exit = 2
	}
	var knownSeen []string
	violations := 0
	replayDir := filepath.Join(verif, "out", "replay", pd.ID)
	os.RemoveAll(replayDir)
	os.MkdirAll(replayDir, 0o755)
	for _, o := range failed {
		if k := isKnown(o.Name); k != nil {
			fmt.Printf("KNOWN-FINDING: property=%s %s witness=%s\n", pd.ID, o.Name, k.Witness)
			knownSeen = append(knownSeen, o.Name)
			nOK++ // counted as decided (listed finding), reported separately in evidence
			continue
		}
		violations++
		path := filepath.Join(replayDir, sanitizeFile(o.Name)+".replay")
		confirmed := writeReplay(P, repo, pd.ID, o, failedRes[o], path)
		sfx := ""
		if !confirmed {
			sfx = " no-failing-input-found"
		}
		fmt.Printf("FAILED-OBLIGATION %s result=%s solver=%s %s\n", o.Name, o.V.Result, o.V.Solver, posStr(o))
		fmt.Printf("VIOLATION property=%s replay=%s%s\n", pd.ID, path, sfx)
		if exit == 0 {
			exit = 1
		}
	}
	// bounded stand-ins (labelled bounded; a pass is reported in the evidence, never among the discharged obligations)
	boundedReport := append([]string{}, pd.Bounded...)
	for _, bt := range pd.BoundedTests {
		src, err := os.ReadFile(filepath.Join(verif, bt.File))
		if err != nil {
			fmt.Println("BROKEN-MACHINERY bounded stand-in missing:", err)
			exit = 2
			continue
		}
		out, _ := runOverlayTest(repo, filepath.Join(repo, bt.Pkg), string(src))
		if strings.Contains(out, "REPLAY-POST-FALSE") || strings.Contains(out, "panic:") {
			violations++
			path := filepath.Join(replayDir, sanitizeFile("bounded_"+bt.Name)+".replay")
			os.WriteFile(path, []byte(fmt.Sprintf("bounded stand-in %s (%s) FAILED on the real code\n--- replay test (package %s, injected with go test -overlay) ---\n%s\n--- replay output ---\n%s\n", bt.Name, bt.Bound, modPath+"/"+bt.Pkg, string(src), out)), 0o644)
			fmt.Printf("FAILED-BOUNDED %s\n", bt.Name)
			fmt.Printf("VIOLATION property=%s replay=%s\n", pd.ID, path)
			if exit == 0 {
				exit = 1
			}
			boundedReport = append(boundedReport, "BOUNDED "+bt.Name+": FAILED ("+bt.Bound+")")
		} else if !strings.Contains(out, "ok") && !strings.Contains(out, "PASS") {
			fmt.Println("BROKEN-MACHINERY bounded stand-in did not run:", strings.TrimSpace(out))
			exit = 2
		} else {
			boundedReport = append(boundedReport, "BOUNDED (not a proof) "+bt.Name+": passed; bound: "+bt.Bound)
		}
	}
	// evidence
	var samples []interface{}
	for i, o := range all {
		if i%maxInt(1, len(all)/12) == 0 && len(samples) < 14 {
			samples = append(samples, o)
		}
	}
	sort.Strings(funcsUnder)
	trusted := append([]string{}, pd.TrustedBase...)
	for _, fs := range P.specList {
		if fs.Trusted {
			for _, r := range results {
				if r.gen != nil && r.gen.usedSpecs[fs.Pkg+"::"+fs.Key] {
					trusted = append(trusted, "assumed contract (trusted, body not verified): "+fs.Key)
					break
				}
			}
		}
	}
	for _, a := range P.axioms {
		if a.Def {
			for _, r := range results {
				if r.Spec != nil {
					for _, u := range r.Spec.Uses {
						if u == a.Name {
							trusted = append(trusted, "definitional axiom (recursive definition of a ghost function, conservative, not machine-checked): "+a.Name)
						}
					}
				}
			}
		}
	}
	trusted = append(trusted,
		"go/types + go/ssa (x/tools v0.29.0, NaiveForm) represent /repo faithfully",
		"gvc's SSA->SMT translation (ints mathematical with explicit wrap for unsigned, slices as (arr,off,len,cap), heap as per-field arrays)",
		"z3 5.1.0 / cvc5 1.0 / z3 4.8.12 answer unsat only for unsatisfiable queries")
	st := map[string]interface{}{}
	for k, v := range solverTime {
		st[k] = round3(v)
	}
	ev := evidence{PropertyID: pd.ID, Tier: tier, Seed: seed, Level: "proof", WallS: round3(time.Since(t0).Seconds()), Violations: violations,
		Coverage: map[string]interface{}{
			"obligations":              nObl,
			"discharged":               nOK,
			"checker_cmd":              fmt.Sprintf("/verif/bin/gvc check -prop %s -tier %s  (z3-new -in -smt2 | cvc5 --lang=smt2 | /usr/bin/z3 -in -smt2, first unsat wins)", pd.ID, tier),
			"trusted_base":             uniq(trusted),
			"samples":                  samples,
			"functions_under_contract": funcsUnder,
			"functions_count":          len(funcsUnder),
			"functions_swept":          nSwept,
			"discharged_by_solver":     solverWins,
			"solver_time_s":            st,
			"known_findings_seen":      knownSeen,
			"havocked_calls":           capList(uniq(havocked), 200),
			"out_of_subset":            unsupported,
			"listed_functions_missing": listMissing,
			"assume_clauses":           nAssume,
			"not_covered":              pd.NotCovered,
			"bounded_standins":         boundedReport,
			"must_fail_selftest":       readSelftest(verif, pd.ID, tier),
			"all_obligations":          all,
			"explanation":              "every obligation is one SMT query generated from the SSA of /repo's working tree and the contracts in */zz_contracts_verif.go; unsat = discharged for all inputs and all iterations (loops via invariants, no unrolling)",
		},
		Assumptions: uniq(append(notes, trusted...)),
	}
	if os.Getenv("GVC_SURVEY") != "" {
		// survey: the functions whose every obligation discharged (or that have none), as spec keys
		var clean []string
		for _, r := range results {
			if !r.sweepOnly || r.Unsupported != "" || r.Fn == nil {
				continue
			}
			ok := true
			for _, o := range r.Obls {
				if o.V.Result != "unsat" {
					ok = false
				}
			}
			if ok {
				k := specKeyOf(r.Fn)
				k = strings.TrimPrefix(k, "github.com/yuin/")
				clean = append(clean, fmt.Sprintf("%s\t# %d obligations", k, len(r.Obls)))
			}
		}
		sort.Strings(clean)
		os.WriteFile(filepath.Join(os.TempDir(), pd.ID+".clean"), []byte(strings.Join(clean, "\n")+"\n"), 0o644)
	}
	evDir := filepath.Join(verif, "evidence")
	if d := os.Getenv("GVC_EVIDENCE_DIR"); d != "" {
		evDir = d // used when a check is pointed at a deliberately broken tree (seeded-change tests)
	}
	os.MkdirAll(evDir, 0o755)
	eb, _ := json.MarshalIndent(ev, "", " ")
	if err := os.WriteFile(filepath.Join(evDir, pd.ID+".json"), eb, 0o644); err != nil {
		fmt.Println("BROKEN-MACHINERY cannot write evidence:", err)
		return 2
	}
	fmt.Printf("%s %s: %d obligations, %d discharged, %d known findings, %d violations, %d functions, %.1fs\n", pd.ID, tier, nObl, nOK-len(knownSeen), len(knownSeen), violations, len(funcsUnder), time.Since(t0).Seconds())
	return exit
}

// readSelftest: the result of tools/selftest.sh for this property (thorough tier only): which patches of the must-fail
// corpus (reverted fixes, seeded changes) made the check report a violation on a scratch copy of /repo.
func readSelftest(verif, id, tier string) interface{} {
	if tier != "thorough" {
		return "thorough tier only"
	}
	b, err := os.ReadFile(filepath.Join(verif, "out", "selftest_"+id+".json"))
	if err != nil {
		return "not run"
	}
	var v interface{}
	if json.Unmarshal(b, &v) != nil {
		return "unreadable"
	}
	return v
}

func isTestutil(fn *ssa.Function) bool {
	return strings.HasPrefix(fnDisplayName(fn), "testutil.") || strings.HasPrefix(fnDisplayName(fn), "main.")
}

func verifRoot() string {
	if v := os.Getenv("VERIF_ROOT"); v != "" {
		return v
	}
	return "/verif"
}

func posStr(o *Obl) string {
	if o.Pos.Filename == "" {
		return ""
	}
	return fmt.Sprintf("%s:%d", o.Pos.Filename, o.Pos.Line)
}

func round3(f float64) float64 { return float64(int(f*1000+0.5)) / 1000 }

func maxInt(a, b int) int {
	if a > b {
		return a
	}
	return b
}

func uniq(xs []string) []string {
	m := map[string]bool{}
	var r []string
	for _, x := range xs {
		if !m[x] {
			m[x] = true
			r = append(r, x)
		}
	}
	if r == nil {
		r = []string{}
	}
	return r
}

func capList(xs []string, n int) []string {
	if len(xs) > n {
		return append(xs[:n:n], fmt.Sprintf("… %d more", len(xs)-n))
	}
	return xs
}

func sanitizeFile(s string) string {
	var sb strings.Builder
	for _, c := range s {
		switch {
		case c >= 'a' && c <= 'z', c >= 'A' && c <= 'Z', c >= '0' && c <= '9', c == '.', c == '-', c == '_':
			sb.WriteRune(c)
		default:
			sb.WriteByte('_')
		}
	}
	r := sb.String()
	if len(r) > 120 {
		r = r[:120]
	}
	return r
}

// runCanaries: per function, the assumptions visible at the function's exits must be satisfiable
// (goal "false" must not be provable).  unsat = contradictory contract.
func runCanaries(results []*FuncResult) []string {
	var bad []string
	var mu sync.Mutex
	var wg sync.WaitGroup
	for _, r := range results {
		if r.gen == nil || r.Spec == nil {
			continue
		}
		allOK := true
		for _, o := range r.Obls {
			if o.V.Result != "unsat" {
				allOK = false // a failed obligation is assumed afterwards; the canary would be meaningless
			}
		}
		if !allOK {
			continue
		}
		wg.Add(1)
		go func(r *FuncResult) {
			defer wg.Done()
			g := r.gen
			var sb strings.Builder
			sb.WriteString(prelude)
			for _, l := range g.lines {
				sb.WriteString(l)
				sb.WriteByte('\n')
			}
			sb.WriteString("(assert " + or(g.retReach...) + ")\n(check-sat)\n")
			solverSem <- struct{}{}
			v := runOne(bgCtx(), solvers[0], sb.String(), 1500)
			<-solverSem
			if v.Result == "unsat" {
				// no exit reachable under the contract: contradictory requires/invariants
				mu.Lock()
				bad = append(bad, r.Name)
				mu.Unlock()
				r.Canary = "VACUOUS"
			} else {
				r.Canary = "ok"
			}
		}(r)
	}
	wg.Wait()
	sort.Strings(bad)
	return bad
}


// axiomObligations: for every axiom used (`uses`) by a verified function, verify the package
// initialiser against it.  The second half of the argument - nothing but the initialiser assigns the
// variables the axiom reads - is the obligation `axiom-stable`.
func (P *Program) axiomObligations(results []*FuncResult) []*FuncResult {
	used := map[string]bool{}
	for _, r := range results {
		if r.Spec != nil {
			for _, u := range r.Spec.Uses {
				used[u] = true
			}
		}
	}
	var out []*FuncResult
	for _, name := range sortedKeys(used) {
		for _, a := range P.axioms {
			if a.Name != name || a.Def {
				continue
			}
			init := P.inits[a.Pkg]
			if init == nil {
				out = append(out, &FuncResult{Name: "axiom " + name, Unsupported: "no package initialiser for " + a.Pkg})
				continue
			}
			sp := &FuncSpec{Key: "init", Pkg: a.Pkg, Loops: map[int]*LoopSpec{}, Pos: a.Pos,
				Ensures: []Clause{{E: a.E, Pos: a.Pos, Name: "axiom:" + name}}}
			sg := map[string]bool{}
			for _, gname := range axiomGlobals(P, a) {
				sg[gname] = true
			}
			r := P.Verify(init, sp, &Hooks{sliceGlobals: sg})
			r.Name = "axiom " + name + " (" + r.Name + ")"
			var keep []*Obl
			for _, o := range r.Obls {
				if o.Kind == "post" {
					keep = append(keep, o)
				}
			}
			r.Obls = keep
			// stability: globals read by the axiom are never written outside init
			for _, gname := range axiomGlobals(P, a) {
				if sp2 := P.spkg[a.Pkg]; sp2 != nil {
					if gl, ok := sp2.Members[gname].(*ssa.Global); ok {
						v := Verdict{Result: "unsat", Solver: "scan"}
						if P.globalsWritten[gl] {
							v = Verdict{Result: "written-outside-init", Solver: "scan", Output: "package variable " + gname + " is assigned or escapes outside the package initialiser"}
						}
						r.Obls = append(r.Obls, &Obl{Name: "axiom " + name + "#axiom-stable:" + gname, Kind: "axiom-stable", V: v, Goal: "true", Guard: "true"})
					}
				}
			}
			out = append(out, r)
		}
	}
	return out
}

func axiomGlobals(P *Program, a *Axiom) []string {
	seen := map[string]bool{}
	var walk func(e *SExpr)
	walk = func(e *SExpr) {
		if e == nil {
			return
		}
		if e.Op == "ident" {
			if tp := P.tpkgByPath[a.Pkg]; tp != nil {
				if _, ok := tp.Scope().Lookup(e.Name).(*types.Var); ok {
					seen[e.Name] = true
				}
			}
		}
		for _, x := range e.Args {
			walk(x)
		}
	}
	walk(P.expand(a.E))
	return sortedKeys(seen)
}


func readFuncList(verif, name string) []string {
	if name == "" {
		return nil
	}
	b, err := os.ReadFile(filepath.Join(verif, name))
	if err != nil {
		return []string{"missing-function-list:" + name}
	}
	var out []string
	for _, ln := range strings.Split(string(b), "\n") {
		if i := strings.Index(ln, "\t#"); i >= 0 {
			ln = ln[:i]
		}
		ln = strings.TrimSpace(ln)
		if ln == "" || strings.HasPrefix(ln, "#") {
			continue
		}
		out = append(out, ln)
	}
	return out
}

// allClaimedPatterns: the union of the function lists of all property definitions.
func allClaimedPatterns(verif string) []string {
	var out []string
	for _, pl := range claimedPatternsByProp(verif) {
		out = append(out, pl...)
	}
	return out
}

// claimedPatternsByProp: property id -> function patterns of its quick tier (a function that is only in a
// thorough list is not verified on every run, so it does not count as verified elsewhere).
func claimedPatternsByProp(verif string) map[string][]string {
	files, _ := filepath.Glob(filepath.Join(verif, "props", "*.json"))
	out := map[string][]string{}
	for _, f := range files {
		b, err := os.ReadFile(f)
		if err != nil {
			continue
		}
		var pd PropDef
		if json.Unmarshal(b, &pd) == nil {
			out[pd.ID] = append(out[pd.ID], pd.Functions...)
			out[pd.ID] = append(out[pd.ID], pd.ThoroughFunctions...)
			out[pd.ID] = append(out[pd.ID], readFuncList(verif, pd.SweepFile)...)
		}
	}
	return out
}


var logicalKind = map[string]bool{"refines-pre": true, "refines-post": true,"inv-entry": true, "inv-preserve": true, "pre@call": true, "post": true, "frame": true,
	"hint": true, "bridge": true, "variant": true, "bind": true, "assert": true}
