package main

import (
	"fmt"
	"go/ast"
	"go/constant"
	"go/token"
	"go/types"
	"os"
	"path/filepath"
	"sort"
	"strings"

	"golang.org/x/tools/go/packages"
	"golang.org/x/tools/go/ssa"
	"golang.org/x/tools/go/ssa/ssautil"
)

const modPath = "github.com/yuin/goldmark"

type Table struct {
	sym   string
	n     int64
	elems map[int64]string // non-default entries
	def   string
	sort  string
	gl    *ssa.Global
}

type ModSet struct {
	All   bool
	Names map[string]bool
}

type Program struct {
	repo      string
	fset      *token.FileSet
	prog      *ssa.Program
	pkgs      []*packages.Package
	spkg      map[string]*ssa.Package
	tpkgByName map[string]*types.Package
	tpkgByPath map[string]*types.Package
	specs     map[string]*FuncSpec
	specList  []*FuncSpec
	specFuns  map[string]*SpecFun
	macros    map[string]*SpecMacro
	globalInvs map[string]bool
	freshNonNil map[*ssa.Function]int
	absMacros  map[string]map[string]*SpecMacro
	axioms    []*Axiom
	funcs     map[string]*ssa.Function // specKey -> function
	allFuncs  []*ssa.Function
	tags      map[string]int
	strs      map[string]int
	tables    map[*ssa.Global]*Table
	notTable  map[*ssa.Global]bool
	src       map[string][]byte
	modsets   map[*ssa.Function]*ModSet
	heapSorts map[string]string
	heapKinds map[string]Kind // pointer / interface valued heap arrays (by name)
	freshCache map[*ssa.Function]*freshSet
	specErrs  []string
	globalsWritten map[*ssa.Global]bool
	implCache map[string][]*ssa.Function
	inits     map[string]*ssa.Function // package path -> synthetic package initialiser
	via            map[*ssa.Function]*ssa.Function
	regionsCache   *regions
	addrTakenCache []*ssa.Function
}

func LoadProgram(repo string, specDirs []string) (*Program, error) {
	cfg := &packages.Config{
		Mode:       packages.LoadAllSyntax,
		Dir:        repo,
		BuildFlags: []string{"-tags=verif"},
		Env:        append(os.Environ(), "GOFLAGS=-mod=mod", "GOPROXY=off", "GOSUMDB=off", "GOTOOLCHAIN=local"),
	}
	pkgs, err := packages.Load(cfg, "./...")
	if err != nil {
		return nil, err
	}
	var errs []string
	packages.Visit(pkgs, nil, func(p *packages.Package) {
		if strings.HasPrefix(p.PkgPath, modPath) {
			for _, e := range p.Errors {
				errs = append(errs, e.Error())
			}
		}
	})
	if len(errs) > 0 {
		return nil, fmt.Errorf("package errors: %s", strings.Join(errs, "; "))
	}
	prog, _ := ssautil.AllPackages(pkgs, ssa.NaiveForm)
	prog.Build()
	P := &Program{
		repo: repo, prog: prog, pkgs: pkgs,
		spkg: map[string]*ssa.Package{}, tpkgByName: map[string]*types.Package{}, tpkgByPath: map[string]*types.Package{},
		specs: map[string]*FuncSpec{}, specFuns: map[string]*SpecFun{}, macros: map[string]*SpecMacro{},
		funcs: map[string]*ssa.Function{}, tags: map[string]int{}, strs: map[string]int{},
		tables: map[*ssa.Global]*Table{}, notTable: map[*ssa.Global]bool{}, src: map[string][]byte{},
		modsets: map[*ssa.Function]*ModSet{}, heapSorts: map[string]string{}, heapKinds: map[string]Kind{}, freshCache: map[*ssa.Function]*freshSet{}, implCache: map[string][]*ssa.Function{},
	}
	P.fset = prog.Fset
	for _, sp := range prog.AllPackages() {
		P.spkg[sp.Pkg.Path()] = sp
		P.tpkgByPath[sp.Pkg.Path()] = sp.Pkg
		if strings.HasPrefix(sp.Pkg.Path(), modPath) {
			name := sp.Pkg.Name()
			if sp.Pkg.Path() == modPath+"/extension/ast" {
				name = "east"
			}
			P.tpkgByName[name] = sp.Pkg
		} else if _, ok := P.tpkgByName[sp.Pkg.Name()]; !ok {
			P.tpkgByName[sp.Pkg.Name()] = sp.Pkg
		}
	}
	P.inits = map[string]*ssa.Function{}
	for fn := range ssautil.AllFunctions(prog) {
		if fn.Synthetic != "" && fn.Syntax() == nil {
			if fn.Name() == "init" && fn.Pkg != nil && fn.Parent() == nil && fn.Signature.Recv() == nil {
				P.inits[fn.Pkg.Pkg.Path()] = fn
			}
			continue
		}
		root := fn
		for root.Parent() != nil {
			root = root.Parent()
		}
		if root.Pkg == nil {
			continue
		}
		P.funcs[specKeyOf(fn)] = fn
		if strings.HasPrefix(root.Pkg.Pkg.Path(), modPath) {
			P.allFuncs = append(P.allFuncs, fn)
		}
	}
	sort.Slice(P.allFuncs, func(i, j int) bool { return specKeyOf(P.allFuncs[i]) < specKeyOf(P.allFuncs[j]) })
	P.scanGlobalWrites()
	// specs: from zz_contracts_verif.go files in repo + extra dirs (*.spec)
	for _, p := range pkgs {
		if !strings.HasPrefix(p.PkgPath, modPath) {
			continue
		}
		for i, f := range p.Syntax {
			fname := p.CompiledGoFiles[i]
			if !strings.HasSuffix(fname, "_verif.go") {
				continue
			}
			for _, cg := range f.Comments {
				for _, c := range cg.List {
					if strings.HasPrefix(c.Text, "/*@") && strings.HasSuffix(c.Text, "@*/") {
						body := c.Text[3 : len(c.Text)-3]
						line := P.fset.Position(c.Pos()).Line
						sf := &SpecFile{Pkg: p.PkgPath, Invs: map[string][]Clause{}}
						if err := ParseSpecText(body, line, relPath(repo, fname), p.PkgPath, sf); err != nil {
							return nil, fmt.Errorf("spec parse: %v", err)
						}
						P.addSpecFile(sf)
					}
				}
			}
		}
	}
	for _, d := range specDirs {
		files, _ := filepath.Glob(filepath.Join(d, "*.spec"))
		sort.Strings(files)
		for _, fn := range files {
			b, err := os.ReadFile(fn)
			if err != nil {
				return nil, err
			}
			sf := &SpecFile{Pkg: "", Invs: map[string][]Clause{}}
			if err := ParseSpecText(string(b), 1, filepath.Base(fn), "", sf); err != nil {
				return nil, fmt.Errorf("spec parse: %v", err)
			}
			P.addSpecFile(sf)
		}
	}
	return P, nil
}

func relPath(base, p string) string {
	if r, err := filepath.Rel(base, p); err == nil {
		return r
	}
	return p
}

func (P *Program) addSpecFile(sf *SpecFile) {
	for _, f := range sf.Funs {
		if _, dup := P.specFuns[f.Name]; dup {
			P.specErrs = append(P.specErrs, fmt.Sprintf("%s: duplicate spec function %s", f.Pos, f.Name))
		}
		P.specFuns[f.Name] = f
	}
	for _, m := range sf.Macros {
		if _, dup := P.macros[m.Name]; dup {
			P.specErrs = append(P.specErrs, fmt.Sprintf("duplicate macro %s", m.Name))
		}
		P.macros[m.Name] = m
	}
	P.axioms = append(P.axioms, sf.Axioms...)
	for _, n := range sf.GlobalInvs {
		if P.globalInvs == nil {
			P.globalInvs = map[string]bool{}
		}
		P.globalInvs[n] = true
	}
	for abs, ms := range sf.AbsMacros {
		if P.absMacros == nil {
			P.absMacros = map[string]map[string]*SpecMacro{}
		}
		if P.absMacros[abs] == nil {
			P.absMacros[abs] = map[string]*SpecMacro{}
		}
		for _, m := range ms {
			P.absMacros[abs][m.Name] = m
		}
	}
	for _, fs := range sf.Funcs {
		key := fs.Pkg + "::" + fs.Key
		if fs.Pkg == "" || strings.Contains(fs.Key, "/") {
			// external spec file: key is written as pkgpath.Key ; last '.'-separated segments form the key
			key = externalKey(fs.Key)
		}
		if fs.IsIface {
			// iface pkgname.Iface.Method -> pkgpath::Iface.Method
			parts := strings.SplitN(fs.Key, ".", 2)
			if tp := P.tpkgByName[parts[0]]; tp != nil && len(parts) == 2 {
				key = tp.Path() + "::" + parts[1]
			}
		} else if fs.Pkg == "" || (!strings.HasPrefix(fs.Key, "(") && strings.Contains(fs.Key, ".") && P.tpkgByName[strings.SplitN(fs.Key, ".", 2)[0]] != nil &&
			P.tpkgByPath[fs.Pkg] != nil && P.tpkgByPath[fs.Pkg].Scope().Lookup(strings.SplitN(fs.Key, ".", 2)[0]) == nil) {
			// pkgname.Func / pkgname.(*T).M : contract for a function of another package (trusted library table)
			parts := strings.SplitN(fs.Key, ".", 2)
			if tp := P.tpkgByName[parts[0]]; tp != nil && len(parts) == 2 {
				key = tp.Path() + "::" + parts[1]
				fs.Pkg = tp.Path()
				fs.Key = parts[1]
			}
		}
		if fs.BodySpec {
			key += "#body"
		}
		if _, dup := P.specs[key]; dup {
			P.specErrs = append(P.specErrs, fmt.Sprintf("%s: duplicate contract for %s", fs.Pos, key))
		}
		P.specs[key] = fs
		P.specList = append(P.specList, fs)
	}
}

func externalKey(k string) string { return k }

// bodySpecOf: the contract a function's body is verified against (its `bodyspec` contract if one exists).
func (P *Program) bodySpecOf(fn *ssa.Function) *FuncSpec {
	if sp := P.specs[specKeyOf(fn)+"#body"]; sp != nil {
		return sp
	}
	return P.specs[specKeyOf(fn)]
}

func (P *Program) typesPkg(path string) *types.Package { return P.tpkgByPath[path] }

func (P *Program) tagOf(s string) int {
	if t, ok := P.tags[s]; ok {
		return t
	}
	t := len(P.tags) + 1
	P.tags[s] = t
	return t
}

func (P *Program) strID(s string) int {
	if t, ok := P.strs[s]; ok {
		return t
	}
	t := len(P.strs) + 1
	P.strs[s] = t
	return t
}

func (P *Program) fileSrc(name string) []byte {
	if b, ok := P.src[name]; ok {
		return b
	}
	b, _ := os.ReadFile(name)
	P.src[name] = b
	return b
}

// resolveType parses a textual type in the context of package path pkg.
func (P *Program) resolveType(s string, pkg string) types.Type {
	s = strings.TrimSpace(s)
	switch {
	case strings.HasPrefix(s, "[]"):
		if e := P.resolveType(s[2:], pkg); e != nil {
			return types.NewSlice(e)
		}
		return nil
	case strings.HasPrefix(s, "*"):
		if e := P.resolveType(s[1:], pkg); e != nil {
			return types.NewPointer(e)
		}
		return nil
	}
	switch s {
	case "int":
		return types.Typ[types.Int]
	case "bool":
		return types.Typ[types.Bool]
	case "byte", "uint8":
		return types.Typ[types.Uint8]
	case "rune", "int32":
		return types.Typ[types.Int32]
	case "string":
		return types.Typ[types.String]
	case "int8":
		return types.Typ[types.Int8]
	case "uint64":
		return types.Typ[types.Uint64]
	case "addr":
		return types.Typ[types.UnsafePointer] // opaque Int
	}
	if i := strings.Index(s, "."); i >= 0 {
		if tp := P.tpkgByName[s[:i]]; tp != nil {
			if o := tp.Scope().Lookup(s[i+1:]); o != nil {
				return o.Type()
			}
		}
		if s[:i] == "ast" { // two packages are called ast; a name not found in goldmark/ast is looked up in extension/ast
			if tp := P.tpkgByName["east"]; tp != nil {
				if o := tp.Scope().Lookup(s[i+1:]); o != nil {
					return o.Type()
				}
			}
		}
		return nil
	}
	if tp := P.tpkgByPath[pkg]; tp != nil {
		if o := tp.Scope().Lookup(s); o != nil {
			if _, ok := o.(*types.TypeName); ok {
				return o.Type()
			}
		}
	}
	return nil
}

func (P *Program) ghostVar(name string) *SpecFun {
	if f := P.specFuns[name]; f != nil && f.IsVar {
		return f
	}
	if i := strings.LastIndex(name, "."); i > 0 { // pkg.name: ghost names are global
		if f := P.specFuns[name[i+1:]]; f != nil && f.IsVar {
			return f
		}
	}
	return nil
}

func (P *Program) ghostSort(gf *SpecFun) string {
	var ss []string
	for _, p := range gf.Params {
		ss = append(ss, sortOfKind(kindOf(P.resolveType(p.Type, gf.Pkg))))
	}
	return "FUN (" + strings.Join(ss, " ") + ") " + sortOfKind(kindOf(P.resolveType(gf.Ret, gf.Pkg)))
}

func (P *Program) sortOfHeapName(name string) string { return P.heapSorts[name] }

// paramNames gives the names by which a contract refers to the arguments of a call.
func (P *Program) paramNames(sp *FuncSpec, fn *ssa.Function, cc *ssa.CallCommon) []string {
	var names []string
	if fn != nil {
		for _, p := range fn.Params {
			names = append(names, p.Name())
		}
		return names
	}
	if !cc.IsInvoke() {
		// value of a named function type: the parameter names of its signature
		sig := cc.Signature()
		for i := 0; i < sig.Params().Len(); i++ {
			n := sig.Params().At(i).Name()
			if n == "" || n == "_" {
				n = fmt.Sprintf("arg%d", i)
			}
			names = append(names, n)
		}
		return names
	}
	// interface method: receiver is "recv", then declared parameter names of the method
	names = append(names, "recv")
	sig := cc.Method.Type().(*types.Signature)
	for i := 0; i < sig.Params().Len(); i++ {
		n := sig.Params().At(i).Name()
		if n == "" || n == "_" {
			n = fmt.Sprintf("arg%d", i)
		}
		names = append(names, n)
	}
	return names
}

// ---------- constant tables ----------

// scanGlobalWrites records which globals are stored to outside package initialisers (element or whole).
func (P *Program) scanGlobalWrites() {
	P.globalsWritten = map[*ssa.Global]bool{}
	for _, fn := range P.allFuncs {
		if fn.Name() == "init" && fn.Parent() == nil {
			continue
		}
		for _, b := range fn.Blocks {
			for _, in := range b.Instrs {
				switch x := in.(type) {
				case *ssa.Store:
					if gl := rootGlobal(x.Addr); gl != nil {
						P.globalsWritten[gl] = true
					}
				default:
					// a global whose address escapes (passed to a call, sliced) may be written elsewhere
					for _, op := range in.Operands(nil) {
						if gl, ok := (*op).(*ssa.Global); ok {
							switch y := in.(type) {
							case *ssa.UnOp, *ssa.IndexAddr, *ssa.FieldAddr:
								_ = y
							default:
								P.globalsWritten[gl] = true
							}
						}
					}
				}
			}
		}
	}
}

func rootGlobal(v ssa.Value) *ssa.Global {
	for {
		switch x := v.(type) {
		case *ssa.Global:
			return x
		case *ssa.IndexAddr:
			v = x.X
		case *ssa.FieldAddr:
			v = x.X
		default:
			return nil
		}
	}
}

// tableOf recognises a package-level array variable with a constant composite-literal initialiser
// that is never written outside init.
func (P *Program) tableOf(gl *ssa.Global) *Table {
	if t, ok := P.tables[gl]; ok {
		return t
	}
	if P.notTable[gl] {
		return nil
	}
	fail := func() *Table { P.notTable[gl] = true; return nil }
	at, ok := deref(gl.Type()).Underlying().(*types.Array)
	if !ok || !isScalarKind(kindOf(at.Elem())) || P.globalsWritten[gl] {
		return fail()
	}
	// find the declaration
	var lit *ast.CompositeLit
	var info *types.Info
	for _, p := range P.pkgs {
		if p.PkgPath != gl.Pkg.Pkg.Path() {
			continue
		}
		info = p.TypesInfo
		for _, f := range p.Syntax {
			for _, d := range f.Decls {
				gd, ok := d.(*ast.GenDecl)
				if !ok || gd.Tok != token.VAR {
					continue
				}
				for _, s := range gd.Specs {
					vs := s.(*ast.ValueSpec)
					for i, n := range vs.Names {
						if n.Name == gl.Name() && i < len(vs.Values) {
							lit, _ = vs.Values[i].(*ast.CompositeLit)
						}
					}
				}
			}
		}
	}
	if lit == nil {
		return fail()
	}
	tb := &Table{n: at.Len(), elems: map[int64]string{}, gl: gl, sym: sym("tbl|" + gl.Pkg.Pkg.Name() + "." + gl.Name()), sort: sortOfKind(kindOf(at.Elem()))}
	tb.def = "0"
	if tb.sort == "Bool" {
		tb.def = "false"
	}
	idx := int64(0)
	for _, el := range lit.Elts {
		var ve ast.Expr = el
		if kv, ok := el.(*ast.KeyValueExpr); ok {
			tv := info.Types[kv.Key]
			if tv.Value == nil {
				return fail()
			}
			k, _ := constant.Int64Val(constant.ToInt(tv.Value))
			idx = k
			ve = kv.Value
		}
		tv := info.Types[ve]
		if tv.Value == nil {
			return fail()
		}
		var s string
		switch tv.Value.Kind() {
		case constant.Int:
			i, _ := constant.Int64Val(tv.Value)
			s = smtInt(i)
		case constant.Bool:
			if constant.BoolVal(tv.Value) {
				s = "true"
			} else {
				s = "false"
			}
		default:
			return fail()
		}
		if s != tb.def {
			tb.elems[idx] = s
		}
		idx++
	}
	P.tables[gl] = tb
	return tb
}

func (P *Program) emitTable(g *Gen, tb *Table) {
	if g.declared[tb.sym] {
		return
	}
	g.declared[tb.sym] = true
	var ks []int64
	for k := range tb.elems {
		ks = append(ks, k)
	}
	sort.Slice(ks, func(i, j int) bool { return ks[i] < ks[j] })
	// group by value to keep the term small
	byVal := map[string][]int64{}
	var vals []string
	for _, k := range ks {
		v := tb.elems[k]
		if _, ok := byVal[v]; !ok {
			vals = append(vals, v)
		}
		byVal[v] = append(byVal[v], k)
	}
	body := tb.def
	for i := len(vals) - 1; i >= 0; i-- {
		v := vals[i]
		var conds []string
		idxs := byVal[v]
		// ranges
		for a := 0; a < len(idxs); {
			b := a
			for b+1 < len(idxs) && idxs[b+1] == idxs[b]+1 {
				b++
			}
			if a == b {
				conds = append(conds, fmt.Sprintf("(= i %d)", idxs[a]))
			} else {
				conds = append(conds, fmt.Sprintf("(and (<= %d i) (<= i %d))", idxs[a], idxs[b]))
			}
			a = b + 1
		}
		body = "(ite " + or(conds...) + " " + v + " " + body + ")"
	}
	g.emit(fmt.Sprintf("(define-fun %s ((i Int)) %s %s)", tb.sym, tb.sort, body))
}

// ---------- inferred modification sets ----------

var stdlibWriters = map[string]string{
	"unicode/utf8::EncodeRune": "M|uint8",
	"unicode/utf8::AppendRune": "",
	"sort::Slice":              "ALL",
	"sort::SliceStable":        "ALL",
	"sort::Sort":               "ALL",
	"sort::Stable":             "ALL",
	"sync::(*Once).Do":         "ALL",
}

func (P *Program) modSetOf(fn *ssa.Function) *ModSet {
	if ms, ok := P.modsets[fn]; ok {
		return ms
	}
	ms := &ModSet{Names: map[string]bool{}}
	P.modsets[fn] = ms // provisional (recursion: optimistic, then iterate)
	for iter := 0; iter < 10; iter++ {
		before := len(ms.Names)
		beforeAll := ms.All
		P.computeModSet(fn, ms)
		if len(ms.Names) == before && ms.All == beforeAll {
			break
		}
	}
	return ms
}

func (P *Program) computeModSet(fn *ssa.Function, ms *ModSet) {
	root := fn
	for root.Parent() != nil {
		root = root.Parent()
	}
	if fn.Blocks == nil {
		key := specKeyOf(fn)
		if w, ok := stdlibWriters[key]; ok {
			if w == "ALL" {
				ms.All = true
			} else if w != "" {
				ms.Names[w] = true
			}
		}
		// external function without body: assumed not to write the library's heap
		return
	}
	if root.Pkg != nil && !strings.HasPrefix(root.Pkg.Pkg.Path(), modPath) {
		key := specKeyOf(fn)
		if w, ok := stdlibWriters[key]; ok {
			if w == "ALL" {
				ms.All = true
			} else if w != "" {
				ms.Names[w] = true
			}
		}
		return
	}
	esc := map[*ssa.Alloc]bool{}
	for _, b := range fn.Blocks {
		for _, in := range b.Instrs {
			if a, ok := in.(*ssa.Alloc); ok && !allocIsVariable(a) {
				esc[a] = true
			}
		}
	}
	addType := func(t types.Type) { P.addAllLeaves(ms, t) }
	for _, b := range fn.Blocks {
		for _, in := range b.Instrs {
			switch x := in.(type) {
			case *ssa.Store:
				// a store into an object this function allocated itself (addressed through field/element
				// selection from the allocation) is not an effect a caller can observe on its pre-call heap
				// (only for stored values without pointers, or nil/zero constants: the caller's stale cell of a
				// pointer field would still carry the "refers to an object allocated before" range fact)
				if rootAlloc(x.Addr) != nil && (pointerFree(x.Val.Type()) || isZeroConst(x.Val)) {
					continue
				}
				P.addStoreTarget(ms, x.Addr, esc)
			case *ssa.MapUpdate:
				mt := typeName(x.Map.Type())
				ms.Names["Map|"+mt+"|has"] = true
				P.addLeafNames(ms, "Map|"+mt+"|val", x.Map.Type().Underlying().(*types.Map).Elem(), true)
			case *ssa.Call:
				cc := x.Common()
				if bi, ok := cc.Value.(*ssa.Builtin); ok {
					switch bi.Name() {
					case "append", "copy":
						et := elemTypeOf(cc.Args[0].Type())
						if kindOf(et) == KStruct {
							addType(et)
						} else if kindOf(et) != KArray {
							P.addLeafNames(ms, "M|"+typeName(et), et, true)
						} else {
							ms.All = true
						}
					case "delete":
						ms.Names["Map|"+typeName(cc.Args[0].Type())+"|has"] = true
					}
					continue
				}
				if cc.IsInvoke() {
					o := P.invokeModSet(cc)
					ms.merge(o)
					continue
				}
				if callee, ok := cc.Value.(*ssa.Function); ok {
					if sp := P.specs[specKeyOf(callee)]; sp != nil && sp.HasMod && false {
						continue
					}
					if callee == fn {
						continue
					}
					ms.merge(P.modSetOf(callee))
					continue
				}
				if mc, ok := cc.Value.(*ssa.MakeClosure); ok {
					ms.merge(P.modSetOf(mc.Fn.(*ssa.Function)))
					continue
				}
				ms.All = true
			}
		}
	}
	// nested closures defined here are accounted for when called
}

func (ms *ModSet) merge(o *ModSet) {
	if o.All {
		ms.All = true
	}
	for k := range o.Names {
		ms.Names[k] = true
	}
}

func (P *Program) addLeafNames(ms *ModSet, prefix string, t types.Type, twoD bool) {
	switch kindOf(t) {
	case KStruct, KArray, KTuple:
		return
	}
	sfx, kinds := leafComps(t)
	for i, s := range sfx {
		ms.Names[prefix+s] = true
		srt := "(Array Int " + sortOfKind(kinds[i]) + ")"
		if twoD {
			srt = "(Array Int (Array Int " + sortOfKind(kinds[i]) + "))"
		}
		P.heapSorts[prefix+s] = srt
		if kinds[i] == KPtr || kinds[i] == KIface {
			P.heapKinds[prefix+s] = kinds[i]
		}
	}
}

// freshPtrNames: the pointer- / array-valued heap arrays in which a call of fn may leave the address of an object
// or array allocated during the call.  A function that allocates directly contributes every such array of its
// inferred write set (its callees may fill in what it allocated); one that does not contributes what its static
// callees, closures and interface implementations contribute.  Dynamic calls contribute nothing (the objects a
// function passed as an argument allocates for itself are not tracked; listed as an assumption).
type freshSet struct {
	All   bool
	Names map[string]bool
}

func (P *Program) isPtrHeapName(n string) bool {
	if !(strings.HasPrefix(n, "H|") || strings.HasPrefix(n, "M|")) {
		return false
	}
	if strings.HasSuffix(n, "#arr") {
		return true
	}
	_, ok := P.heapKinds[n]
	return ok
}

func (P *Program) freshPtrNames(fn *ssa.Function) *freshSet {
	if v, ok := P.freshCache[fn]; ok {
		return v
	}
	fs := &freshSet{Names: map[string]bool{}}
	P.freshCache[fn] = fs // recursion: optimistic
	root := fn
	for root.Parent() != nil {
		root = root.Parent()
	}
	if fn.Blocks == nil || (root.Pkg != nil && !strings.HasPrefix(root.Pkg.Pkg.Path(), modPath)) {
		return fs
	}
	direct := false
	var callees []*ssa.Function
	for _, b := range fn.Blocks {
		for _, in := range b.Instrs {
			switch x := in.(type) {
			case *ssa.Alloc:
				if !allocIsVariable(x) {
					direct = true
				}
			case *ssa.MakeSlice, *ssa.MakeMap:
				direct = true
			case *ssa.Call:
				cc := x.Common()
				if bi, ok := cc.Value.(*ssa.Builtin); ok {
					if bi.Name() == "append" {
						direct = true
					}
					continue
				}
				if cc.IsInvoke() {
					callees = append(callees, P.implementations(cc)...)
					continue
				}
				if callee, ok := cc.Value.(*ssa.Function); ok {
					if callee != fn {
						callees = append(callees, callee)
					}
					continue
				}
				if mc, ok := cc.Value.(*ssa.MakeClosure); ok {
					callees = append(callees, mc.Fn.(*ssa.Function))
				}
			}
		}
	}
	if direct {
		ms := P.modSetOf(fn)
		if ms.All {
			fs.All = true
		}
		for n := range ms.Names {
			if P.isPtrHeapName(n) {
				fs.Names[n] = true
			}
		}
	}
	for _, c := range callees {
		o := P.freshPtrNames(c)
		if o.All {
			fs.All = true
		}
		for n := range o.Names {
			fs.Names[n] = true
		}
	}
	return fs
}

// addAllLeaves: every leaf array of struct type t (recursively).
func (P *Program) addAllLeaves(ms *ModSet, t types.Type) {
	s := structOf(t)
	if s == nil {
		if kindOf(t) == KArray {
			at := t.Underlying().(*types.Array)
			if isScalarKind(kindOf(at.Elem())) {
				P.addLeafNames(ms, "M|"+typeName(at.Elem()), at.Elem(), true)
			} else {
				ms.All = true
			}
			return
		}
		P.addLeafNames(ms, cellName(t), t, false)
		return
	}
	for i := 0; i < s.NumFields(); i++ {
		f := s.Field(i)
		switch kindOf(f.Type()) {
		case KStruct:
			P.addAllLeaves(ms, f.Type())
		case KArray:
			at := f.Type().Underlying().(*types.Array)
			if isScalarKind(kindOf(at.Elem())) {
				P.addLeafNames(ms, "M|"+typeName(at.Elem()), at.Elem(), true)
			} else {
				ms.All = true
			}
		default:
			P.addLeafNames(ms, "H|"+typeName(t)+"|"+f.Name(), f.Type(), false)
		}
	}
}

func (P *Program) addStoreTarget(ms *ModSet, addr ssa.Value, esc map[*ssa.Alloc]bool) {
	switch a := addr.(type) {
	case *ssa.Alloc:
		if esc[a] {
			P.addAllLeaves(ms, deref(a.Type()))
		}
	case *ssa.FieldAddr:
		// is the root a local variable?
		if ra := rootAlloc(a); ra != nil && !esc[ra] {
			return
		}
		stT := deref(a.X.Type())
		f := structOf(stT).Field(a.Field)
		switch kindOf(f.Type()) {
		case KStruct, KArray:
			P.addAllLeaves(ms, f.Type())
		default:
			P.addLeafNames(ms, "H|"+typeName(stT)+"|"+f.Name(), f.Type(), false)
		}
	case *ssa.IndexAddr:
		if ra := rootAlloc(a); ra != nil && !esc[ra] {
			return
		}
		et := deref(a.Type())
		if kindOf(et) == KStruct {
			P.addAllLeaves(ms, et)
		} else if kindOf(et) == KArray {
			ms.All = true
		} else {
			P.addLeafNames(ms, "M|"+typeName(et), et, true)
		}
	default:
		P.addAllLeaves(ms, deref(addr.Type()))
	}
}

func rootAlloc(v ssa.Value) *ssa.Alloc {
	for {
		switch x := v.(type) {
		case *ssa.Alloc:
			return x
		case *ssa.FieldAddr:
			v = x.X
		case *ssa.IndexAddr:
			if _, isArr := deref(x.X.Type()).Underlying().(*types.Array); !isArr {
				return nil
			}
			v = x.X
		default:
			return nil
		}
	}
}

// invokeModSet: union over all implementations inside the module (class-hierarchy analysis).
func (P *Program) invokeModSet(cc *ssa.CallCommon) *ModSet {
	ms := &ModSet{Names: map[string]bool{}}
	for _, fn := range P.implementations(cc) {
		ms.merge(P.modSetOf(fn))
	}
	return ms
}

func (P *Program) implementations(cc *ssa.CallCommon) []*ssa.Function {
	it, ok := cc.Value.Type().Underlying().(*types.Interface)
	if !ok {
		return nil
	}
	key := typeName(cc.Value.Type()) + "." + cc.Method.Name()
	if r, ok := P.implCache[key]; ok {
		return r
	}
	var out []*ssa.Function
	seen := map[*ssa.Function]bool{}
	for _, sp := range P.prog.AllPackages() {
		if !strings.HasPrefix(sp.Pkg.Path(), modPath) {
			continue
		}
		for _, m := range sp.Members {
			tn, ok := m.(*ssa.Type)
			if !ok {
				continue
			}
			for _, t := range []types.Type{tn.Type(), types.NewPointer(tn.Type())} {
				if types.IsInterface(t) {
					continue
				}
				if !types.Implements(t, it) {
					continue
				}
				sel := P.prog.MethodSets.MethodSet(t).Lookup(cc.Method.Pkg(), cc.Method.Name())
				if sel == nil {
					continue
				}
				fn := P.prog.MethodValue(sel)
				if fn == nil {
					continue
				}
				// unwrap promotion wrappers to the declared method
				if fn.Synthetic != "" {
					if obj, ok := sel.Obj().(*types.Func); ok {
						if d := P.prog.FuncValue(obj); d != nil {
							fn = d
						}
					}
				}
				if !seen[fn] {
					seen[fn] = true
					out = append(out, fn)
				}
			}
		}
	}
	P.implCache[key] = out
	return out
}
