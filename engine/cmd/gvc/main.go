package main

import (
	"flag"
	"fmt"
	"os"
	"regexp"
	"sort"
	"strings"
	"sync"
	"time"
)

func buildScript(g *Gen, o *Obl) string {
	var sb strings.Builder
	sb.WriteString(prelude)
	for _, l := range g.lines[:o.Upto] {
		sb.WriteString(l)
		sb.WriteByte('\n')
	}
	sb.WriteString("(assert (not " + implies(o.Guard, o.Goal) + "))\n(check-sat)\n")
	if len(o.Values) > 0 {
		sb.WriteString("(get-value (" + strings.Join(o.Values, " ") + "))\n")
	}
	return sb.String()
}

func solveAll(results []*FuncResult, quickMs, fullMs int) {
	var wg sync.WaitGroup
	sem := make(chan struct{}, 16)
	for _, r := range results {
		if r.gen == nil {
			continue
		}
		for _, o := range r.Obls {
			wg.Add(1)
			go func(g *Gen, o *Obl) {
				defer wg.Done()
				sem <- struct{}{}
				defer func() { <-sem }()
				o.V = Solve(buildScript(g, o), quickMs, fullMs)
			}(r.gen, o)
		}
	}
	wg.Wait()
	// Second chance for obligations left undecided: solver timing depends on machine load, so an
	// `unknown` is re-tried alone (lower parallelism, three times the budget) before it counts as failed.
	var retry []*Obl
	gens := map[*Obl]*Gen{}
	for _, r := range results {
		if r.gen == nil {
			continue
		}
		for _, o := range r.Obls {
			if o.V.Result != "unsat" && o.V.Result != "sat" {
				retry = append(retry, o)
				gens[o] = r.gen
			}
		}
	}
	// (more than a dozen undecided obligations is not timing noise; re-trying them only delays the report)
	// (GVC_NORETRY: must-fail runs on deliberately broken copies only want to know WHETHER something fails)
	if len(retry) == 0 || len(retry) > 12 || os.Getenv("GVC_SURVEY") != "" || os.Getenv("GVC_NORETRY") != "" {
		return
	}
	sem2 := make(chan struct{}, 6)
	var wg2 sync.WaitGroup
	for _, o := range retry {
		wg2.Add(1)
		go func(o *Obl) {
			defer wg2.Done()
			sem2 <- struct{}{}
			defer func() { <-sem2 }()
			v := Solve(buildScript(gens[o], o), quickMs*3, fullMs*3)
			if v.Result == "unsat" || v.Result == "sat" {
				o.V = v
			}
		}(o)
	}
	wg2.Wait()
}

func main() {
	if len(os.Args) > 1 && os.Args[1] == "check" {
		os.Exit(runCheck(os.Args[2:]))
	}
	repo := flag.String("repo", "/repo", "repository root")
	fnre := flag.String("fn", "", "regexp over function display names (pkg.Key)")
	dump := flag.String("dump", "", "dump SMT script of the obligation with this name")
	axiomF := flag.String("axiom", "", "verify the package initialiser against this axiom instead of functions")
	quick := flag.Int("quick-ms", 3000, "first-stage timeout")
	full := flag.Int("full-ms", 10000, "race timeout")
	kinds := flag.String("kinds", "", "comma list of obligation kinds to keep (default all)")
	onlySpec := flag.Bool("spec-only", false, "only functions that have a contract")
	hookName := flag.String("hooks", "", "hook set (safety, rowrite)")
	flag.Parse()
	t0 := time.Now()
	P, err := LoadProgram(*repo, []string{"/verif/specs"})
	if err != nil {
		fmt.Fprintln(os.Stderr, "load:", err)
		os.Exit(2)
	}
	for _, e := range P.specErrs {
		fmt.Println("SPEC-ERROR", e)
	}
	fmt.Printf("loaded in %.1fs: %d functions, %d contracts\n", time.Since(t0).Seconds(), len(P.allFuncs), len(P.specList))
	re := regexp.MustCompile(*fnre)
	keep := map[string]bool{}
	for _, k := range strings.Split(*kinds, ",") {
		if k != "" {
			keep[k] = true
		}
	}
	var results []*FuncResult
	for _, fn := range P.allFuncs {
		name := fnDisplayName(fn)
		if !re.MatchString(name) {
			continue
		}
		sp := P.bodySpecOf(fn)
		if *onlySpec && sp == nil {
			continue
		}
		if sp != nil && sp.Trusted {
			continue
		}
		r := P.Verify(fn, sp, hooksByName(P, *hookName))
		if rr := P.VerifyRefines(fn, sp, hooksByName(P, *hookName)); rr != nil {
			results = append(results, rr)
		}
		if len(keep) > 0 {
			var f []*Obl
			for _, o := range r.Obls {
				if keep[o.Kind] {
					f = append(f, o)
				}
			}
			r.Obls = f
		}
		results = append(results, r)
	}
	if *axiomF != "" {
		results = P.axiomObligations([]*FuncResult{{Spec: &FuncSpec{Uses: []string{*axiomF}}}})
	}
	fmt.Printf("generated in %.1fs\n", time.Since(t0).Seconds())
	if *dump != "" {
		for _, r := range results {
			for _, o := range r.Obls {
				if o.Name == *dump {
					fmt.Print(buildScript(r.gen, o))
					return
				}
			}
		}
		fmt.Println("no such obligation")
		return
	}
	solveAll(results, *quick, *full)
	nOK, nFail, nUns := 0, 0, 0
	sort.Slice(results, func(i, j int) bool { return results[i].Name < results[j].Name })
	for _, r := range results {
		if os.Getenv("GVC_HAVOC") != "" {
			for _, h := range r.Havocked {
				fmt.Printf("HAVOC %s: %s\n", r.Name, h)
			}
		}
		if r.Unsupported != "" {
			nUns++
			fmt.Printf("UNSUPPORTED %s: %s\n", r.Name, r.Unsupported)
			continue
		}
		for _, o := range r.Obls {
			if o.V.Result == "unsat" {
				nOK++
				continue
			}
			nFail++
			fmt.Printf("FAIL %-8s %s  [%s %s %.2fs] %s:%d\n", o.V.Result, o.Name, o.V.Solver, o.V.Result, o.V.Secs, o.Pos.Filename, o.Pos.Line)
		}
	}
	fmt.Printf("discharged %d, failed %d, unsupported functions %d, wall %.1fs\n", nOK, nFail, nUns, time.Since(t0).Seconds())
}
