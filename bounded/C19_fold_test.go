package util

// Bounded stand-in for the parts of C19 that no contract decides (Unicode case folding of link labels, UTF-8 validity
// of the resolvers).  Injected into package util with `go test -overlay` by `./check C19`; NOT a proof:
// bound = every valid rune U+0000..U+1FFFF, alone and embedded between ASCII letters, and all strings of length <= 3
// over a 12-byte alphabet for the resolvers.

import (
	"bytes"
	"testing"
	"unicode/utf8"
)

func TestGvcReplay(t *testing.T) {
	fail := func(format string, args ...interface{}) {
		t.Errorf("REPLAY-POST-FALSE "+format, args...)
	}
	nfail := 0
	// 1. folding: a rune with a table entry becomes exactly that entry, any other rune (beyond A-Z) is unchanged
	for r := rune(0); r < 0x20000 && nfail < 5; r++ {
		if !utf8.ValidRune(r) {
			continue
		}
		want := []rune{r}
		if r >= 'A' && r <= 'Z' {
			want = []rune{r + 32}
		} else if f, ok := unicodeCaseFoldings[r]; ok {
			want = f
		}
		in := []byte("a" + string(r) + "Z")
		exp := []byte("a" + string(want) + "z")
		got := DoFullUnicodeCaseFolding(in)
		if !bytes.Equal(got, exp) {
			nfail++
			fail("DoFullUnicodeCaseFolding(%q) = %q, want %q (U+%04X)", in, got, exp, r)
		}
		// 2. link labels: normalisation is idempotent and identifies a label with its folded form
		l1 := ToLinkReference(in)
		if l2 := ToLinkReference([]byte(l1)); l1 != l2 {
			nfail++
			fail("ToLinkReference not idempotent on %q: %q then %q", in, l1, l2)
		}
		if l3 := ToLinkReference(exp); l1 != l3 {
			nfail++
			fail("ToLinkReference(%q)=%q differs from ToLinkReference(%q)=%q", in, l1, exp, l3)
		}
	}
	// 3. whitespace runs inside a label are identified with one space, outer whitespace is dropped
	for _, p := range [][2]string{{"a \t\n b", "a b"}, {"  aÄ  ", "aä"}, {"\tA\r\n\r\nB\t", "a b"}} {
		if got := ToLinkReference([]byte(p[0])); got != p[1] {
			fail("ToLinkReference(%q) = %q, want %q", p[0], got, p[1])
		}
	}
	// 4. resolvers keep valid UTF-8 valid (all strings of length <= 3 over this alphabet, plus a two-byte rune)
	alpha := []string{"&", "#", "x", ";", "0", "1", "9", "a", "\\", "*", "é", "F"}
	var rec func(prefix string, depth int)
	rec = func(prefix string, depth int) {
		if nfail >= 5 {
			return
		}
		for _, fn := range []struct {
			name string
			f    func([]byte) []byte
		}{{"UnescapePunctuations", UnescapePunctuations}, {"ResolveNumericReferences", ResolveNumericReferences}, {"ResolveEntityNames", ResolveEntityNames}} {
			out := fn.f([]byte(prefix))
			if utf8.ValidString(prefix) && !utf8.Valid(out) {
				nfail++
				fail("%s(%q) = %q is not valid UTF-8", fn.name, prefix, out)
			}
		}
		if depth == 0 {
			return
		}
		for _, a := range alpha {
			rec(prefix+a, depth-1)
		}
	}
	rec("", 3)
	rec("&#", 3)
	rec("&#x", 3)
}
